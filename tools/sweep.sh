#!/bin/bash
# tools/sweep.sh "<seeds>" "<properties>" [tier]: run the checks for several VERIF_SEED values without touching
# the committed evidence; prints one line per (property, seed) with exit code and any VIOLATION/HARNESS-ERROR lines.
SEEDS="$1"; PROPS="$2"; TIER="${3:-quick}"
OUT=/tmp/sweep-evidence; mkdir -p $OUT
cd /verif/sim && CARGO_NET_OFFLINE=true cargo build --offline >/dev/null 2>&1 || { echo build failed; exit 2; }
BIN=/verif/sim/target/debug/vsim-sweep-$$; cp /verif/sim/target/debug/vsim $BIN   # later rebuilds do not disturb the sweep
for s in $SEEDS; do for p in $PROPS; do
  t0=$(date +%s)
  VSIM_EVIDENCE_DIR=$OUT VERIF_SEED=$s $BIN check $p --tier $TIER > /tmp/sweep-$p-$s.log 2>&1; rc=$?
  echo "$p seed=$s exit=$rc $(( $(date +%s) - t0 ))s $(grep -c KNOWN-FINDING /tmp/sweep-$p-$s.log) known"
  grep -E 'VIOLATION|HARNESS-ERROR|  harness=' /tmp/sweep-$p-$s.log | head -6
done; done
rm -f $BIN
