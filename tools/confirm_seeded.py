#!/usr/bin/env python3
"""confirm_seeded.py <worktree> <PROP> <mN> : confirm an agent-delivered mutation ourselves in its scratch worktree
   (patch applies, builds, existing tests of the touched crates pass with it, demo passes without / fails with),
   then store it as /verif/seeded/<PROP>-<mN>/ {patch.diff, demo.*, README.md, meta.json}."""
import json, os, re, shutil, subprocess, sys, time
wt, prop, mn = sys.argv[1], sys.argv[2], sys.argv[3]
src = f"{wt}/mutations/{mn}"
meta = json.load(open(f"{src}/meta.json"))
env = dict(os.environ, CARGO_NET_OFFLINE="true")
def sh(cmd, timeout=3600):
    t = time.time()
    p = subprocess.run(cmd, shell=True, cwd=wt, env=env, stdout=subprocess.PIPE, stderr=subprocess.STDOUT, text=True, timeout=timeout)
    return p.returncode, p.stdout, time.time() - t
def crate_of(path):
    d = os.path.dirname(os.path.join(wt, path))
    while d.startswith(wt):
        if os.path.exists(os.path.join(d, "Cargo.toml")):
            txt = open(os.path.join(d, "Cargo.toml")).read()
            m = re.search(r'^name\s*=\s*"([^"]+)"', txt, re.M)
            if m: return m.group(1)
        d = os.path.dirname(d)
    return None
log = {}
sh("git checkout -- . && git clean -fdq -e mutations -e target")
demo_cmd = meta["demo_cmd"]
# the demo usually starts with "cp <demo> <dir>/file": make sure the directory exists (git clean removes empty ones)
for m in re.finditer(r'cp\s+\S+\s+(\S+)', demo_cmd):
    d = os.path.dirname(m.group(1))
    if d: demo_cmd = f"mkdir -p {d} && " + demo_cmd
# 1. demo without the patch
rc0, out0, t0 = sh(demo_cmd)
log["demo_without_patch"] = {"cmd": demo_cmd, "exit": rc0, "secs": round(t0), "tail": out0[-600:]}
# 2. apply the patch, run existing tests of touched crates (+ dependents asked for on the command line)
rc, out, _ = sh(f"git apply mutations/{mn}/patch.diff")
log["apply"] = {"exit": rc, "out": out[-300:]}
crates = sorted({crate_of(f) for f in meta.get("files", []) if crate_of(f)})
extra = sys.argv[4:]
demo_files = [l.split()[-1] for l in subprocess.run("git status --porcelain --untracked-files=all | grep '^??' | grep -v mutations/", shell=True, cwd=wt, stdout=subprocess.PIPE, text=True).stdout.splitlines()]
# move demo files away while running the existing tests
for f in demo_files:
    os.rename(os.path.join(wt, f), os.path.join(wt, f) + ".off")
tests = {}
for c in crates + extra:
    cmd = f"cargo test -p {c} --offline 2>&1 | grep -E '^test result|FAILED|failed|error(\\[|:)' | head -40"
    rc, out, t = sh(cmd)
    ok = "FAILED" not in out and "error" not in out and "test result: ok" in out
    tests[c] = {"cmd": f"cargo test -p {c} --offline", "ok": ok, "secs": round(t), "summary": out[-800:]}
log["existing_tests_with_patch"] = tests
for f in demo_files:
    os.rename(os.path.join(wt, f) + ".off", os.path.join(wt, f))
# 3. demo with the patch
rc1, out1, t1 = sh(demo_cmd)
log["demo_with_patch"] = {"cmd": demo_cmd, "exit": rc1, "secs": round(t1), "tail": out1[-800:]}
sh("git checkout -- . && git clean -fdq -e mutations -e target")
ok = rc0 == 0 and rc1 != 0 and log["apply"]["exit"] == 0 and all(t["ok"] for t in tests.values())
log["confirmed"] = ok
dst = f"/verif/seeded/{prop}-{mn}"
os.makedirs(dst, exist_ok=True)
for f in os.listdir(src):
    if os.path.isdir(os.path.join(src, f)):
        shutil.copytree(os.path.join(src, f), os.path.join(dst, f), dirs_exist_ok=True)
    else:
        shutil.copy(os.path.join(src, f), os.path.join(dst, f))
meta["property"] = prop
meta["confirmation"] = log
meta["confirmed_by_us"] = ok
json.dump(meta, open(f"{dst}/meta.json", "w"), indent=1)
print(prop, mn, "CONFIRMED" if ok else "NOT CONFIRMED", json.dumps({k: (v if k != "existing_tests_with_patch" else {c: t["ok"] for c, t in v.items()}) for k, v in log.items() if k in ("confirmed", "existing_tests_with_patch")}), "demo without:", rc0, "with:", rc1)
