#!/bin/bash
# tools/refresh_evidence.sh [props...]: run the quick check of every claimed property in /verif against /repo (default seed)
# and report exit codes; evidence files are rewritten by the checks themselves.
cd /verif
PROPS="${@:-$(python3 -c "import json;print(' '.join(c['property_id'] for c in json.load(open('/verif/MANIFEST.json'))['checks']))")}"
for p in $PROPS; do
  t0=$(date +%s); out=$(timeout 1500 bin/check $p quick 2>&1); rc=$?
  echo "$p exit=$rc $(( $(date +%s) - t0 ))s known=$(echo "$out" | grep -c KNOWN-FINDING)"
  echo "$out" | grep -E 'VIOLATION|HARNESS-ERROR|  harness=' | head -5
done
