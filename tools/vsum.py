#!/usr/bin/env python3
# summarise `vsim run` output: violation classes with one example each, plus aggregate
import sys, json, collections
cl=collections.OrderedDict(); agg=None
for l in sys.stdin:
    if l.startswith('V '):
        v=json.loads(l[2:]); c=v['violation']['class']
        cl.setdefault(c,[]).append(v)
    elif l.startswith('A '):
        agg=json.loads(l[2:])
for c,vs in cl.items():
    v=vs[0]
    print(f"[{c}] x{len(vs)} run={v['run_index']} params={v['plan']['params']}\n    {v['violation']['msg'][:600]}")
if agg: print('runs',agg['runs'],'violations',agg['violations'],'panics',agg['panics'],'stepcap',agg['stepcap'],'probes',agg['probes'])
