#!/usr/bin/env python3
# Prints the prompt given to an independent sub-agent that seeds a property-breaking change.
import json, sys
pid, wt, n = sys.argv[1], sys.argv[2], (sys.argv[3] if len(sys.argv) > 3 else "3")
p = next(json.loads(l) for l in open('/verif/properties.jsonl') if json.loads(l)['id'] == pid)
print(f"""You are testing how robust a Rust code base is against subtle regressions. Work ONLY inside the git worktree {wt} (a scratch copy of the repository eclipse-iceoryx/iceoryx2: zero-copy lock-free inter-process pub/sub and event middleware over POSIX shared memory). Never touch /repo or /verif. The sandbox is offline: always pass --offline to cargo (CARGO_NET_OFFLINE=true), nothing can be downloaded. Use the worktree's own target directory (the default {wt}/target) and build/test only the crates you need (cargo test -p <crate> --offline), because disk space and CPU are shared.

Here is a semantic property the code base is supposed to satisfy:

  Title: {p['title']}
  Statement: {p['statement']}
  It must hold for: {p['quantifier']['text']}
  Code it is anchored in: {', '.join(p['anchors']['files'])}

Your task: produce {n} DIFFERENT, independent source changes ("mutations") to the library code (not to tests) that each BREAK this property, while the code still compiles and the EXISTING test suite of the affected crates still passes (run the existing tests of every crate you touch, and of iceoryx2-cal / iceoryx2 if you touch code they depend on closely; a pre-existing flaky/failing test that also fails without your change does not count against you - verify by running it on the unmodified tree). Prefer changes that look like plausible refactoring slips or optimisations a real developer might make, and that need something SPECIFIC to manifest: a particular thread interleaving, a weak-memory reordering, a crash or fault at a particular point, a multi-step sequence of operations, an unusual input or configuration, or two cooperating sites that each look fine alone. Do NOT produce changes that ordinary use exposes at once (those are caught by the existing tests anyway). Each mutation should be small (a few lines).

For each mutation i (1..{n}) deliver, under {wt}/mutations/m<i>/ :
  - patch.diff : the change as `git diff` output relative to the worktree HEAD (must apply with `git apply` on a clean checkout of HEAD). Only library source changes, no test changes in this file.
  - a demonstration: a new test file or small program (put a copy in the same directory as demo.rs plus a short README.md saying exactly where it has to be placed in the tree and the exact command to run it) that FAILS (or shows the violation) with the patch applied and PASSES without it. If the violation needs a specific interleaving and cannot be shown deterministically with ordinary threads, you may show it with a stress loop, with carefully placed sleeps/barriers that you add only in the demonstration, or by a reasoned trace in the README - but try for an executable demonstration first.
  - meta.json : {{"property": "{pid}", "summary": "...what was changed...", "needs": "...what specific interleaving/fault/sequence/input is needed for the violation to manifest...", "files": [...], "existing_tests_run": "...commands you ran and their results...", "demo_cmd": "..."}}

Work one mutation at a time: make the change, build, run the existing tests of the touched crate(s), write and run the demonstration, save the three files, then `git checkout -- .` (and remove any demo test file you added to the tree) before starting the next. At the end leave the worktree clean except for the mutations/ directory. Finish with a short report listing the mutations and whether each demonstration is executable. Do not spend more than about 90 minutes in total.""")
