#!/bin/bash
# tools/clone_env.sh <name>: private development sandbox /tmp/env-<name>/{repo,verif}
#   repo  = scratch git worktree of /repo (HEAD), free to be patched
#   verif = copy of /verif (without build output) whose absolute paths point into the sandbox
# Remove with: git -C /repo worktree remove --force /tmp/env-<name>/repo; rm -rf /tmp/env-<name>
set -e
N=$1
E=/tmp/env-$N
[ -e "$E" ] && { echo "$E exists"; exit 2; }
mkdir -p "$E"
git -C /repo worktree add --detach "$E/repo" HEAD >/dev/null 2>&1
rsync -a --exclude target --exclude '.build-log.*' --exclude replays --exclude .git /verif/ "$E/verif/"
cd "$E/verif"
grep -rlE '/repo|/verif' --include='*.toml' --include='*.rs' --include='*.py' --include='*.sh' --include='check' . 2>/dev/null | grep -v '^./seeded' | while read f; do
  sed -i "s#/repo#$E/repo#g; s#/verif#$E/verif#g" "$f"
done
(cd "$E/verif" && git init -q . && git add -A >/dev/null 2>&1 && git -c user.email=a@b -c user.name=env commit -qm base >/dev/null)
echo "$E"
