#!/usr/bin/env python3
"""wide_tests.py <worktree> <PROP> <mN>... : apply each stored seeded patch in the worktree and run the conformance suites
   (where the behaviour of iceoryx2 / iceoryx2-cal is really tested) plus the touched crates with nextest; every test of
   the pinned stable-pass list that fails with the patch (and not without) is recorded in /verif/seeded/<PROP>-<mN>/meta.json."""
import json, os, re, subprocess, sys
wt, prop = sys.argv[1], sys.argv[2]
stable = set(json.load(open('/root/.vp/BASELINE.json'))['stable_pass'])
PK = "-p iceoryx2-conformance-tests -p iceoryx2-cal-conformance-tests -p iceoryx2-cal -p iceoryx2 -p iceoryx2-bb-lock-free -p iceoryx2-bb-posix -p iceoryx2-bb-container -p iceoryx2-bb-memory -p iceoryx2-bb-elementary"
def run():
    p = subprocess.run(f"nice -n 15 cargo nextest run {PK} --offline --no-fail-fast --test-threads 6 2>&1", shell=True, cwd=wt, stdout=subprocess.PIPE, text=True, env=dict(os.environ, CARGO_NET_OFFLINE="true"))
    fails = set()
    for l in p.stdout.splitlines():
        m = re.match(r'\s+(FAIL|SIGABRT|SIGSEGV|TIMEOUT)\s+\[.*?\] \(.*?\) (\S+) (\S+)', l)
        if m:
            fails.add(f"{m.group(2)}::{m.group(3)}")
    summ = [l for l in p.stdout.splitlines() if 'Summary' in l]
    return fails, (summ[-1].strip() if summ else p.stdout[-300:])
def sh(c): return subprocess.run(c, shell=True, cwd=wt, stdout=subprocess.PIPE, stderr=subprocess.STDOUT, text=True)
sh("git checkout -- . && git clean -fdq -e mutations -e target")
base, bsum = run()
print(prop, "baseline", bsum, len(base), flush=True)
for mn in sys.argv[3:]:
    d = f"/verif/seeded/{prop}-{mn}"
    r = sh(f"git apply {d}/patch.diff")
    if r.returncode != 0:
        print(prop, mn, "patch does not apply", r.stdout[-200:]); continue
    f, s = run()
    sh("git checkout -- . && git clean -fdq -e mutations -e target")
    new = sorted(x for x in f - base if x in stable)
    meta = json.load(open(f"{d}/meta.json"))
    meta["wide_tests"] = {"packages": PK, "summary": s, "stable_tests_failing_only_with_patch": new}
    if new:
        meta["confirmed_by_us"] = False
    json.dump(meta, open(f"{d}/meta.json", "w"), indent=1)
    print(prop, mn, s, "NEW FAILURES:" if new else "no new failures", new[:5], flush=True)
