#!/bin/bash
# tools/try_mutant.sh <patch> <PROPERTY> [extra args]: apply a patch to /repo, run the quick check, revert.
P="$1"; PROP="$2"; shift 2
cd /repo || exit 2
if [ -n "$(git status --porcelain --untracked-files=no)" ]; then echo "/repo not clean"; exit 2; fi
git apply "$P" || { echo "patch does not apply"; exit 2; }
/verif/bin/check "$PROP" quick "$@"; rc=$?
git -C /repo checkout -- .
echo "exit=$rc"
exit $rc
