#!/usr/bin/env python3
import sys,json
for l in sys.stdin:
    if l.startswith('V '):
        d=json.loads(l[2:]); print(d['run_index'], d['plan']['mode'], d['plan']['params'], d['violation']['class'], d['violation']['msg'][:400])
    elif l.startswith('A '):
        d=json.loads(l[2:]); print('AGG runs',d['runs'],'viol',d['violations'],'beyond',d['beyond'],'stepcap',d['stepcap'],'deadlocks',d['deadlocks'],'inconcl',d['inconclusive'],'kills',d['kills'],'probes',d['probes'], 'beyond_samples', d['beyond_samples'][:1])
