// Extracts the lock based generic `Atomic<T>` (128 bit support) from the working tree's
// atomic.rs so that it runs unchanged on top of the instrumented primitives.
use std::io::Write;
fn main() {
    let repo = std::env::var("VERIF_REPO").unwrap_or_else(|_| "/repo".to_string());
    let src = format!("{repo}/iceoryx2-pal/concurrency-sync/src/atomic.rs");
    println!("cargo:rerun-if-changed={src}");
    println!("cargo:rerun-if-env-changed=VERIF_REPO");
    let text = std::fs::read_to_string(&src).expect("read atomic.rs");
    let start = text.find("type LockType").expect("LockType marker in atomic.rs");
    let out = std::path::Path::new(&std::env::var("OUT_DIR").unwrap()).join("generic_atomic.rs");
    let mut f = std::fs::File::create(out).unwrap();
    f.write_all(b"use core::{fmt::Debug, marker::Copy, ops::{AddAssign, BitAndAssign, BitOrAssign, BitXorAssign, Not, SubAssign}};\nuse crate::WaitAction; use crate::cell::UnsafeCell; use crate::strategy::rwlock::RwLockWriterPreference;\n").unwrap();
    f.write_all(text[start..].as_bytes()).unwrap();
}
