// Deterministic simulator core (DESIGN.md §4.1, §4.2).
//
// Simulated threads are real OS threads that pass one token: exactly one of them runs
// between two yield points. Every scheduling decision, every stale load, every write
// split, every thread death and every harness level fault is a *decision*; decisions have
// a default (0) and a run is fully described by its sparse list of non-default decisions
// (`Dev`). Seeded mode draws decisions from PRNG streams derived from one integer and
// records the deviations; replay mode feeds a deviation list back.
//
// One simulation per process at a time (worker processes give parallelism).

use core::sync::atomic::Ordering;
use std::cell::Cell;
use std::collections::{HashMap, VecDeque};
use std::sync::{Arc, Condvar, Mutex, MutexGuard};

pub mod faults;
pub mod pathlog;
pub mod quarantine;
pub mod remote;
pub mod rng;
use rng::Rng;

pub const MAXT: usize = 8;
pub type VC = [u32; MAXT];

#[inline]
fn vc_join(a: &mut VC, b: &VC) {
    for i in 0..MAXT {
        if b[i] > a[i] {
            a[i] = b[i]
        }
    }
}
#[inline]
fn vc_le(a: &VC, b: &VC) -> bool {
    (0..MAXT).all(|i| a[i] <= b[i])
}

pub const K_SCHED: u8 = 1;
pub const K_STALE: u8 = 2;
pub const K_SPLIT: u8 = 3;
pub const K_KILL: u8 = 4;
pub const K_CASFAIL: u8 = 5;
pub const K_CHOOSE: u8 = 6;
pub const K_POST: u8 = 7;

pub fn kind_name(k: u8) -> &'static str {
    match k {
        K_SCHED => "sched",
        K_STALE => "stale",
        K_SPLIT => "split",
        K_KILL => "kill",
        K_CASFAIL => "casfail",
        K_CHOOSE => "choose",
        K_POST => "post-yield",
        _ => "?",
    }
}

#[derive(Clone, Copy, Debug, PartialEq, Eq, PartialOrd, Ord)]
pub struct Dev {
    pub idx: u64,
    pub kind: u8,
    pub choice: u32,
}

#[derive(Clone, Debug, PartialEq)]
pub enum Strategy {
    /// uniform random walk; with probability `sticky` the default choice is kept
    Random { sticky: f64 },
    /// PCT: random priorities, `depth` priority change points among `est_len` steps
    Pct { depth: u32, est_len: u64 },
}

#[derive(Clone, Debug)]
pub struct RunCfg {
    pub weak: bool,
    pub stale_prob: f64,
    pub cas_weak_fail_prob: f64,
    pub p1: bool,
    pub split_prob: f64,
    pub kill_prob: f64,
    pub max_kills: u32,
    /// probability of a context switch right *after* an atomic operation executed, i.e. between the
    /// operation and the plain code that follows it (reader preempted between validating load and copy)
    pub post_yield_prob: f64,
    pub strategy: Strategy,
    pub step_cap: u64,
    pub spin_limit: u32,
    pub trace: bool,
}

impl Default for RunCfg {
    fn default() -> Self {
        RunCfg {
            weak: false,
            stale_prob: 0.0,
            cas_weak_fail_prob: 0.0,
            p1: false,
            split_prob: 0.0,
            kill_prob: 0.0,
            max_kills: 0,
            post_yield_prob: 0.0,
            strategy: Strategy::Random { sticky: 0.5 },
            step_cap: 20_000,
            spin_limit: 48,
            trace: false,
        }
    }
}

#[derive(Clone, Debug)]
pub enum Decisions {
    Seeded(u64),
    Replay(Vec<Dev>),
}

#[derive(Clone, Debug, PartialEq)]
pub enum Outcome {
    Ok,
    Deadlock { blocked: Vec<usize> },
    StepCap,
    Panic { thread: usize, msg: String },
}

#[derive(Clone, Debug)]
pub struct Report {
    pub outcome: Outcome,
    pub fingerprint: u64,
    pub sched_sig: u64,
    pub steps: u64,
    pub switches: u64,
    pub stale_reads: u64,
    pub splits: u64,
    pub kills: u64,
    pub cas_spurious: u64,
    pub chooses: u64,
    pub decisions: u64,
    pub deviations: Vec<Dev>,
    pub sim_time_ns: u64,
    pub threads: usize,
    pub log_tail: Vec<String>,
}

struct Parker {
    m: Mutex<bool>,
    c: Condvar,
}
impl Parker {
    fn new() -> Arc<Self> {
        Arc::new(Parker { m: Mutex::new(false), c: Condvar::new() })
    }
    fn park(&self) {
        let mut g = self.m.lock().unwrap();
        while !*g {
            g = self.c.wait(g).unwrap();
        }
        *g = false;
    }
    fn unpark(&self) {
        *self.m.lock().unwrap() = true;
        self.c.notify_one();
    }
}

#[derive(PartialEq, Clone, Copy, Debug)]
enum St {
    Runnable,
    BlockedJoin(usize),
    BlockedKey { key: usize, deadline: Option<u64> },
    Finished,
    Crashed,
}

struct Th {
    st: St,
    parker: Arc<Parker>,
    clock: VC,
    acq_pending: VC,
    rel_fence: VC,
    prio: u32,
    consec: u32,
    killable: bool,
    woken: bool,
    pending_writes: Vec<(usize, u64)>,
    name: String,
}

struct StoreRec {
    val: u64,
    wclock: VC,
    rel: VC,
}
struct Loc {
    id: usize,
    base: usize,
    stores: VecDeque<StoreRec>,
    /// per thread: (own clock component at the access, mo index read or written), monotone in both.
    /// Gives coherence across happens-before (CoRR/CoWR/CoRW/CoWW): a thread that is ordered after an
    /// access of another thread may not observe anything older than what that access observed.
    acc: [Vec<(u32, usize)>; MAXT],
    floor: [usize; MAXT],
}
impl Loc {
    fn note_access(&mut self, t: usize, time: u32, idx: usize) {
        let v = &mut self.acc[t];
        v.push((time, idx));
        if v.len() > 32 {
            let dropped = v.remove(0);
            self.floor[t] = self.floor[t].max(dropped.1);
        }
    }
    /// newest mo index that an access of thread `u` with time ≤ `upto` observed
    fn observed_by(&self, u: usize, upto: u32) -> usize {
        let v = &self.acc[u];
        match v.first() {
            None => self.floor[u],
            Some(f) if f.0 > upto => {
                // either never accessed that early or truncated: floor is a sound over-approximation
                // only if something was truncated; floor is 0/base otherwise
                self.floor[u]
            }
            _ => {
                let mut best = self.floor[u];
                for (t, i) in v.iter() {
                    if *t <= upto { best = *i } else { break }
                }
                best
            }
        }
    }
}
struct Arena {
    base: usize,
    len: usize,
    shadow: Vec<u64>,
}

struct Sim {
    cfg: RunCfg,
    seeded: bool,
    rng_sched: Rng,
    rng_mem: Rng,
    rng_fault: Rng,
    replay: HashMap<u64, Dev>,
    next_decision: u64,
    devs: Vec<Dev>,
    threads: Vec<Th>,
    locs: HashMap<usize, Loc>,
    loc_ids: HashMap<usize, usize>,
    sync_clocks: HashMap<usize, VC>,
    arenas: Vec<Arena>,
    sc: VC,
    now_ns: u64,
    pct_points: Vec<u64>,
    pct_low: u32,
    rep_fingerprint: u64,
    sched_sig: u64,
    steps: u64,
    switches: u64,
    stale_reads: u64,
    splits: u64,
    kills: u64,
    cas_spurious: u64,
    chooses: u64,
    finished: Option<Outcome>,
    log: VecDeque<(u64, usize, &'static str, u64, u64, u64)>,
    event_seq: u64,
}

static SIM: Mutex<Option<Box<Sim>>> = Mutex::new(None);
static DONE: (Mutex<bool>, Condvar) = (Mutex::new(false), Condvar::new());
thread_local! { static TID: Cell<usize> = const { Cell::new(usize::MAX) }; }

#[inline]
pub fn active() -> bool {
    TID.with(|t| t.get()) != usize::MAX
}
#[inline]
fn me() -> usize {
    TID.with(|t| t.get())
}
pub fn current_thread() -> usize {
    me()
}

fn lock() -> MutexGuard<'static, Option<Box<Sim>>> {
    match SIM.lock() {
        Ok(g) => g,
        Err(p) => p.into_inner(),
    }
}

fn fnv(h: u64, x: u64) -> u64 {
    (h ^ x).wrapping_mul(0x100000001b3)
}

const LOG_TAIL: usize = 96;

impl Sim {
    fn log_event(&mut self, tid: usize, what: &'static str, loc: u64, val: u64, extra: u64) {
        self.event_seq += 1;
        let mut h = self.rep_fingerprint;
        h = fnv(h, tid as u64);
        for b in what.as_bytes() {
            h = fnv(h, *b as u64);
        }
        h = fnv(h, loc);
        h = fnv(h, val);
        h = fnv(h, extra);
        self.rep_fingerprint = h;
        {
            if self.log.len() >= LOG_TAIL && !self.cfg.trace {
                self.log.pop_front();
            }
            self.log.push_back((self.event_seq, tid, what, loc, val, extra));
        }
    }

    /// One decision point. Returns 0 for the default or the non-default choice.
    fn decide(&mut self, kind: u8, gen_choice: impl FnOnce(&mut Sim) -> u32) -> u32 {
        let idx = self.next_decision;
        self.next_decision += 1;
        if self.seeded {
            let c = gen_choice(self);
            if c != 0 {
                self.devs.push(Dev { idx, kind, choice: c });
            }
            c
        } else {
            match self.replay.get(&idx) {
                Some(d) if d.kind == kind => {
                    let d = *d;
                    self.devs.push(d);
                    d.choice
                }
                _ => 0,
            }
        }
    }

    fn runnable(&self, i: usize) -> bool {
        self.threads[i].st == St::Runnable
    }

    /// Advance virtual time if nobody is runnable but somebody waits with a deadline.
    fn wake_by_time(&mut self) -> bool {
        let mut min: Option<u64> = None;
        for t in &self.threads {
            if let St::BlockedKey { deadline: Some(d), .. } = t.st {
                min = Some(min.map_or(d, |m: u64| m.min(d)));
            }
        }
        match min {
            None => false,
            Some(d) => {
                if d > self.now_ns {
                    self.now_ns = d;
                }
                let now = self.now_ns;
                for t in self.threads.iter_mut() {
                    if let St::BlockedKey { deadline: Some(dl), .. } = t.st {
                        if dl <= now {
                            t.st = St::Runnable;
                            t.woken = false;
                        }
                    }
                }
                true
            }
        }
    }

    fn default_next(&self, me: usize, me_ok: bool) -> Option<usize> {
        let n = self.threads.len();
        if me_ok && self.runnable(me) && self.threads[me].consec <= self.cfg.spin_limit {
            return Some(me);
        }
        // round robin starting after me
        for k in 1..=n {
            let i = (me + k) % n;
            if self.runnable(i) && (i != me || me_ok) {
                return Some(i);
            }
        }
        None
    }

    /// Choose who runs next. `me_ok`: the calling thread may continue.
    fn pick_next(&mut self, me: usize, me_ok: bool, site: u64) -> Option<usize> {
        loop {
            let any = (0..self.threads.len()).any(|i| self.runnable(i) && (i != me || me_ok));
            if any {
                break;
            }
            if !self.wake_by_time() {
                return None;
            }
            // after waking by time `me` may be runnable again (it was the sleeper)
            if self.runnable(me) {
                // me_ok semantics: a sleeper that was woken may continue
                let d = self.default_next_any();
                return d;
            }
        }
        let dflt = self.default_next(me, me_ok).unwrap();
        let cands: Vec<usize> = (0..self.threads.len()).filter(|&i| self.runnable(i) && (i != me || me_ok)).collect();
        if cands.len() == 1 {
            // no real choice, not a decision point
            return Some(cands[0]);
        }
        let choice = self.decide(K_SCHED, |s| {
            let c = match s.cfg.strategy.clone() {
                Strategy::Random { sticky } => {
                    if s.rng_sched.f64() < sticky {
                        dflt
                    } else {
                        cands[s.rng_sched.below(cands.len() as u64) as usize]
                    }
                }
                Strategy::Pct { .. } => {
                    // priority change point?
                    let step = s.steps;
                    if s.pct_points.contains(&step) && me_ok {
                        s.pct_low = s.pct_low.saturating_sub(1);
                        s.threads[me].prio = s.pct_low;
                    }
                    if me_ok && s.threads[me].consec > s.cfg.spin_limit {
                        s.pct_low = s.pct_low.saturating_sub(1);
                        s.threads[me].prio = s.pct_low;
                    }
                    *cands.iter().max_by_key(|&&i| (s.threads[i].prio, usize::MAX - i)).unwrap()
                }
            };
            if c == dflt { 0 } else { c as u32 + 1 }
        });
        let next = if choice == 0 {
            dflt
        } else {
            let c = (choice - 1) as usize;
            if c < self.threads.len() && self.runnable(c) && (c != me || me_ok) { c } else { dflt }
        };
        if next != me {
            self.sched_sig = fnv(fnv(fnv(self.sched_sig, 0x51), site), next as u64);
        }
        Some(next)
    }

    fn default_next_any(&self) -> Option<usize> {
        (0..self.threads.len()).find(|&i| self.runnable(i))
    }

    fn arena_of(&self, addr: usize) -> Option<usize> {
        self.arenas.iter().position(|a| addr >= a.base && addr < a.base + a.len)
    }

    /// keep the shadow copy in sync with a simulated atomic write
    fn shadow_sync(&mut self, addr: usize, width: usize) {
        if let Some(ai) = self.arena_of(addr) {
            let a = &mut self.arenas[ai];
            let w0 = (addr - a.base) / 8;
            let w1 = (addr + width - 1 - a.base) / 8;
            for w in w0..=w1.min(a.shadow.len() - 1) {
                a.shadow[w] = unsafe { core::ptr::read_volatile((a.base + w * 8) as *const u64) };
            }
        }
    }

    /// P1: find the plain writes the running thread made since its last yield and maybe defer some.
    /// Returns true if a split was made (the caller must then switch away).
    fn collect_plain_writes(&mut self, me: usize) -> bool {
        if self.arenas.is_empty() {
            return false;
        }
        let mut changed: Vec<(usize, u64, u64)> = Vec::new();
        for a in self.arenas.iter_mut() {
            for w in 0..a.shadow.len() {
                let p = (a.base + w * 8) as *const u64;
                let cur = unsafe { core::ptr::read_volatile(p) };
                if cur != a.shadow[w] {
                    changed.push((a.base + w * 8, a.shadow[w], cur));
                    a.shadow[w] = cur;
                }
            }
        }
        if !self.cfg.p1 || changed.is_empty() {
            return false;
        }
        let others = (0..self.threads.len()).any(|i| i != me && self.runnable(i));
        if !others {
            return false;
        }
        let n = changed.len() as u32;
        // choice encoding: 0 = no split; 1 = defer all; 2+k = defer words k.. (suffix); 1000+m = defer by mask m (≤20 words)
        let choice = self.decide(K_SPLIT, |s| {
            if s.rng_mem.f64() >= s.cfg.split_prob {
                return 0;
            }
            match s.rng_mem.below(4) {
                0 => 1,
                1 => 2 + s.rng_mem.below(n as u64) as u32,
                2 => 500 + s.rng_mem.below(n as u64) as u32, // prefix: defer words ..=k
                _ => {
                    let bits = n.min(20);
                    let m = (s.rng_mem.next() as u32) & ((1u32 << bits) - 1);
                    if m == 0 { 1 } else { 1000 + m }
                }
            }
        });
        if choice == 0 {
            return false;
        }
        let defer: Vec<bool> = (0..changed.len())
            .map(|i| {
                if choice == 1 {
                    true
                } else if choice >= 1000 {
                    i < 20 && ((choice - 1000) >> i) & 1 == 1
                } else if choice >= 500 {
                    i <= (choice - 500) as usize
                } else {
                    i >= (choice - 2) as usize
                }
            })
            .collect();
        if !defer.iter().any(|d| *d) {
            return false;
        }
        let mut cnt = 0u64;
        for (i, (addr, old, new)) in changed.iter().enumerate() {
            if defer[i] {
                unsafe { core::ptr::write_volatile(*addr as *mut u64, *old) };
                self.threads[me].pending_writes.push((*addr, *new));
                cnt += 1;
            }
        }
        // resync shadow for deferred words
        let pend: Vec<usize> = self.threads[me].pending_writes.iter().map(|p| p.0).collect();
        for addr in pend {
            self.shadow_sync(addr, 8);
        }
        self.splits += 1;
        self.sched_sig = fnv(fnv(self.sched_sig, 0x53), cnt);
        self.log_event(me, "split", changed.len() as u64, cnt, choice as u64);
        true
    }

    fn apply_pending(&mut self, t: usize) {
        if self.threads[t].pending_writes.is_empty() {
            return;
        }
        let pw = core::mem::take(&mut self.threads[t].pending_writes);
        for (addr, new) in pw.iter() {
            unsafe { core::ptr::write_volatile(*addr as *mut u64, *new) };
        }
        for (addr, _) in pw {
            self.shadow_sync(addr, 8);
        }
    }

    fn finish(&mut self, o: Outcome) {
        if self.finished.is_none() {
            self.finished = Some(o);
        }
        let mut d = DONE.0.lock().unwrap();
        *d = true;
        DONE.1.notify_all();
    }

    fn all_done(&self) -> bool {
        self.threads.iter().all(|t| matches!(t.st, St::Finished | St::Crashed))
    }

    fn blocked_list(&self) -> Vec<usize> {
        (0..self.threads.len()).filter(|&i| !matches!(self.threads[i].st, St::Finished | St::Crashed | St::Runnable)).collect()
    }
}

fn park_forever() -> ! {
    loop {
        std::thread::park();
    }
}

/// hand the token to `next` (≠ me) and wait to be scheduled again
fn switch_from(mut g: MutexGuard<'static, Option<Box<Sim>>>, me: usize, next: usize) {
    let s = g.as_mut().unwrap();
    s.switches += 1;
    s.threads[me].consec = 0;
    s.threads[next].consec = 0;
    s.apply_pending(next);
    let p = s.threads[next].parker.clone();
    let mine = s.threads[me].parker.clone();
    drop(g);
    p.unpark();
    mine.park();
}

/// The calling thread cannot continue (blocked, finished or crashed): pass the token on or end the run.
/// Returns only if the caller is blocked (not finished/crashed) and was woken again.
fn leave(mut g: MutexGuard<'static, Option<Box<Sim>>>, me: usize, terminal: bool) {
    let s = g.as_mut().unwrap();
    match s.pick_next(me, false, 0) {
        Some(next) if next == me => {
            // woken by virtual time
            debug_assert!(!terminal);
        }
        Some(next) => {
            if terminal {
                s.switches += 1;
                s.threads[next].consec = 0;
                s.apply_pending(next);
                let p = s.threads[next].parker.clone();
                drop(g);
                p.unpark();
            } else {
                switch_from(g, me, next);
            }
        }
        None => {
            if s.all_done() {
                s.finish(Outcome::Ok);
            } else {
                let b = s.blocked_list();
                s.finish(Outcome::Deadlock { blocked: b });
            }
            drop(g);
            if !terminal {
                park_forever();
            }
        }
    }
}

fn abort(mut g: MutexGuard<'static, Option<Box<Sim>>>, o: Outcome) -> ! {
    g.as_mut().unwrap().finish(o);
    drop(g);
    park_forever();
}

/// A scheduling point of the calling simulated thread. `site` identifies the location for signatures.
pub fn yield_point(site: u64) {
    let me = me();
    let mut g = lock();
    let s = g.as_mut().unwrap();
    if s.finished.is_some() {
        drop(g);
        park_forever();
    }
    s.steps += 1;
    s.threads[me].consec += 1;
    if s.steps > s.cfg.step_cap {
        abort(g, Outcome::StepCap);
    }
    let split = s.collect_plain_writes(me);
    if s.threads[me].killable && s.kills < s.cfg.max_kills as u64 && !split {
        let c = s.decide(K_KILL, |s| if s.rng_fault.f64() < s.cfg.kill_prob { 1 } else { 0 });
        if c != 0 {
            s.kills += 1;
            s.threads[me].st = St::Crashed;
            s.log_event(me, "killed", site, 0, 0);
            s.sched_sig = fnv(fnv(s.sched_sig, 0x4b), site);
            for t in s.threads.iter_mut() {
                if t.st == St::BlockedJoin(me) {
                    t.st = St::Runnable;
                }
            }
            leave(g, me, true);
            park_forever();
        }
    }
    let next = if split {
        // must let somebody else observe the half written state
        let n = s.threads.len();
        let mut cands: Vec<usize> = (0..n).filter(|&i| i != me && s.runnable(i)).collect();
        if cands.len() > 1 {
            let c = s.decide(K_SCHED, |s| {
                let k = s.rng_sched.below(cands.len() as u64) as usize;
                cands[k] as u32 + 1
            });
            if c != 0 && cands.contains(&((c - 1) as usize)) {
                cands = vec![(c - 1) as usize];
            }
        }
        cands[0]
    } else {
        s.pick_next(me, true, site).unwrap()
    };
    if next != me {
        switch_from(g, me, next);
    }
}

/// Optional scheduling point after an operation executed (default: none).
fn post_yield(site: u64) {
    let me = me();
    let mut g = lock();
    let s = g.as_mut().unwrap();
    if s.finished.is_some() {
        return;
    }
    if s.cfg.post_yield_prob <= 0.0 {
        return;
    }
    let cands: Vec<usize> = (0..s.threads.len()).filter(|&i| i != me && s.runnable(i)).collect();
    if cands.is_empty() {
        return;
    }
    let c = s.decide(K_POST, |s| {
        if s.rng_sched.f64() < s.cfg.post_yield_prob {
            cands[s.rng_sched.below(cands.len() as u64) as usize] as u32 + 1
        } else {
            0
        }
    });
    if c == 0 {
        return;
    }
    let next = (c - 1) as usize;
    if !cands.contains(&next) {
        return;
    }
    s.sched_sig = fnv(fnv(fnv(s.sched_sig, 0x50), site), next as u64);
    switch_from(g, me, next);
}

#[inline]
fn is_acq(o: Ordering) -> bool {
    matches!(o, Ordering::Acquire | Ordering::AcqRel | Ordering::SeqCst)
}
#[inline]
fn is_rel(o: Ordering) -> bool {
    matches!(o, Ordering::Release | Ordering::AcqRel | Ordering::SeqCst)
}

pub enum Op {
    Load(Ordering),
    Store(Ordering),
    Rmw { success: Ordering, failure: Ordering, weak: bool },
}

/// The instrumented atomics funnel every operation through here.
/// `f(cur)` returns the new value for stores/RMWs (None = RMW fails).
pub fn atomic_op(addr: usize, width: usize, read_real: &dyn Fn() -> u64, op: Op, f: &mut dyn FnMut(u64) -> Option<u64>, write: &dyn Fn(u64)) -> Result<u64, u64> {
    // location ids are first-arrival ordinals, never addresses (ASLR must not leak into logs/signatures)
    let site = {
        let mut g = lock();
        let s = g.as_mut().unwrap();
        let n = s.loc_ids.len();
        *s.loc_ids.entry(addr).or_insert(n)
    };
    yield_point(site as u64);
    let me = me();
    let mut g = lock();
    let s = g.as_mut().unwrap();
    let real_now = read_real();
    let nloc = site;
    let loc = s.locs.entry(addr).or_insert_with(|| {
        let mut d = VecDeque::new();
        d.push_back(StoreRec { val: real_now, wclock: [0; MAXT], rel: [0; MAXT] });
        Loc { id: nloc, base: 0, stores: d, acc: Default::default(), floor: [0; MAXT] }
    });
    if loc.stores.back().unwrap().val != real_now {
        // re-initialised non-atomically (ptr.write(Atomic::new(..)), re-created segment, relocation)
        loc.base += loc.stores.len();
        loc.stores.clear();
        loc.stores.push_back(StoreRec { val: real_now, wclock: [0; MAXT], rel: [0; MAXT] });
        for t in 0..MAXT {
            loc.acc[t].clear();
            loc.floor[t] = loc.base;
        }
    }
    let loc_id = loc.id as u64;
    let base = loc.base;
    let last = base + loc.stores.len() - 1; // absolute index of mo-latest
    // lower bound for what a load may return (absolute index): the newest store or observation
    // that happens-before this access
    let lower_bound = |s: &Sim| -> usize {
        let loc = s.locs.get(&addr).unwrap();
        let tclock = &s.threads[me].clock;
        let mut lb = loc.base;
        for u in 0..s.threads.len() {
            let upto = if u == me { u32::MAX } else { tclock[u] };
            lb = lb.max(loc.observed_by(u, upto));
        }
        lb.min(loc.base + loc.stores.len() - 1)
    };
    let mut lb = lower_bound(s);
    let weak = s.cfg.weak;

    // returns (absolute idx, value); `pred` restricts the stale candidates
    fn load_at(s: &mut Sim, me: usize, addr: usize, ord: Ordering, lb: usize, last: usize, base: usize, weak: bool, pred: &mut dyn FnMut(u64) -> bool, force_stale: bool) -> Option<(usize, u64)> {
        let mut idx = last;
        let mut chosen_stale = false;
        if weak && ord != Ordering::SeqCst && lb < last {
            let cands: Vec<usize> = {
                let loc = s.locs.get(&addr).unwrap();
                (lb..last).rev().filter(|&i| pred(loc.stores[i - base].val)).collect()
            };
            if !cands.is_empty() {
                let n = cands.len() as u64;
                let c = s.decide(K_STALE, |s| {
                    if s.rng_mem.f64() < s.cfg.stale_prob {
                        // bias towards the most recent stale value
                        let k = if s.rng_mem.f64() < 0.6 { 0 } else { s.rng_mem.below(n) };
                        k as u32 + 1
                    } else {
                        0
                    }
                });
                if c != 0 {
                    let k = ((c - 1) as usize).min(cands.len() - 1);
                    idx = cands[k];
                    chosen_stale = true;
                    s.stale_reads += 1;
                    s.sched_sig = fnv(fnv(fnv(s.sched_sig, 0x57), s.loc_ids[&addr] as u64), (last - idx) as u64);
                }
            }
        }
        if force_stale && !chosen_stale {
            return None;
        }
        let loc = s.locs.get(&addr).unwrap();
        let st = &loc.stores[idx - base];
        let (val, rel) = (st.val, st.rel);
        s.threads[me].clock[me] += 1;
        let time = s.threads[me].clock[me];
        s.locs.get_mut(&addr).unwrap().note_access(me, time, idx);
        let t = &mut s.threads[me];
        if is_acq(ord) {
            vc_join(&mut t.clock, &rel);
        } else {
            vc_join(&mut t.acq_pending, &rel);
        }
        Some((idx, val))
    }

    fn do_store(s: &mut Sim, me: usize, addr: usize, ord: Ordering, val: u64, inherit: Option<VC>) {
        let t = &mut s.threads[me];
        t.clock[me] += 1;
        t.consec = 0;
        let wclock = t.clock;
        let mut rel = if is_rel(ord) { t.clock } else { t.rel_fence };
        if let Some(i) = inherit {
            vc_join(&mut rel, &i);
        }
        if ord == Ordering::SeqCst {
            let mut sc = s.sc;
            vc_join(&mut sc, &wclock);
            s.sc = sc;
        }
        let loc = s.locs.get_mut(&addr).unwrap();
        loc.stores.push_back(StoreRec { val, wclock, rel });
        while loc.stores.len() > 24 {
            loc.stores.pop_front();
            loc.base += 1;
        }
        let n = loc.base + loc.stores.len() - 1;
        let time = wclock[me];
        loc.note_access(me, time, n);
    }

    let res = match op {
        Op::Load(o) => {
            if o == Ordering::SeqCst {
                let sc = s.sc;
                vc_join(&mut s.threads[me].clock, &sc);
                lb = lower_bound(s);
            }
            let (idx, v) = load_at(s, me, addr, o, lb, last, base, weak, &mut |_| true, false).unwrap();
            s.log_event(me, "ld", loc_id, v, (last - idx) as u64);
            Ok(v)
        }
        Op::Store(o) => {
            let v = f(0).unwrap();
            do_store(s, me, addr, o, v, None);
            write(v);
            s.shadow_sync(addr, width);
            s.log_event(me, "st", loc_id, v, 0);
            Ok(v)
        }
        Op::Rmw { success, failure, weak: weak_cas } => {
            let cur = s.locs.get(&addr).unwrap().stores[last - base].val;
            // a failing CAS is a load and may legally observe a stale value
            let mut stale_fail: Option<u64> = None;
            if weak && lb < last {
                let mut pred = |x: u64| f(x).is_none();
                if let Some((_, v)) = load_at(s, me, addr, failure, lb, last, base, weak, &mut pred, true) {
                    stale_fail = Some(v);
                }
            }
            if let Some(v) = stale_fail {
                s.log_event(me, "cas-stale-fail", loc_id, v, 0);
                Err(v)
            } else {
                match f(cur) {
                    Some(n) => {
                        let spurious = weak_cas
                            && s.cfg.cas_weak_fail_prob > 0.0
                            && s.decide(K_CASFAIL, |s| if s.rng_mem.f64() < s.cfg.cas_weak_fail_prob { 1 } else { 0 }) != 0;
                        if spurious {
                            s.cas_spurious += 1;
                            s.sched_sig = fnv(fnv(s.sched_sig, 0x43), loc_id);
                            s.threads[me].clock[me] += 1;
                            let time = s.threads[me].clock[me];
                            s.locs.get_mut(&addr).unwrap().note_access(me, time, last);
                            s.log_event(me, "cas-spurious", loc_id, cur, 0);
                            Err(cur)
                        } else {
                            let lrel = s.locs.get(&addr).unwrap().stores[last - base].rel;
                            let t = &mut s.threads[me];
                            if is_acq(success) {
                                vc_join(&mut t.clock, &lrel);
                            } else {
                                vc_join(&mut t.acq_pending, &lrel);
                            }
                            if success == Ordering::SeqCst {
                                let sc = s.sc;
                                vc_join(&mut s.threads[me].clock, &sc);
                            }
                            do_store(s, me, addr, success, n, Some(lrel));
                            write(n);
                            s.shadow_sync(addr, width);
                            s.log_event(me, "rmw", loc_id, cur, n);
                            Ok(cur)
                        }
                    }
                    None => {
                        let mut pred = |x: u64| f(x).is_none();
                        let (_, v) = load_at(s, me, addr, failure, lb, last, base, weak, &mut pred, false).unwrap();
                        s.log_event(me, "cas-fail", loc_id, v, 0);
                        Err(v)
                    }
                }
            }
        }
    };
    drop(g);
    post_yield(site as u64);
    res
}

pub fn fence(o: Ordering) {
    yield_point(0xfe);
    let me = me();
    let mut g = lock();
    let s = g.as_mut().unwrap();
    if is_acq(o) {
        let p = s.threads[me].acq_pending;
        vc_join(&mut s.threads[me].clock, &p);
    }
    if o == Ordering::SeqCst {
        let sc = s.sc;
        vc_join(&mut s.threads[me].clock, &sc);
        let c = s.threads[me].clock;
        vc_join(&mut s.sc, &c);
    }
    if is_rel(o) {
        s.threads[me].rel_fence = s.threads[me].clock;
    }
    s.log_event(me, "fence", 0, o as u64, 0);
}

// ---------------------------------------------------------------------------------------
// happens-before witnesses

#[derive(Clone, Copy, Debug)]
pub struct Token(pub VC);

/// Capture the caller's position in happens-before.
pub fn hb_token() -> Token {
    let me = me();
    let mut g = lock();
    let s = g.as_mut().unwrap();
    s.threads[me].clock[me] += 1;
    Token(s.threads[me].clock)
}
impl Token {
    pub fn happened_before_now(&self) -> bool {
        let me = me();
        let g = lock();
        vc_le(&self.0, &g.as_ref().unwrap().threads[me].clock)
    }
}

/// Invocation/return mark: global event sequence number plus the caller's vector clock.
pub fn mark() -> (u64, VC) {
    let me = me();
    let mut g = lock();
    let s = g.as_mut().unwrap();
    s.event_seq += 1;
    s.threads[me].clock[me] += 1;
    (s.event_seq, s.threads[me].clock)
}

/// Global event sequence number (for invoke/return stamps of linearizability histories).
pub fn stamp() -> u64 {
    let mut g = lock();
    let s = g.as_mut().unwrap();
    s.event_seq += 1;
    s.event_seq
}

/// Record a harness level event in the run's log/fingerprint.
pub fn note(what: &'static str, a: u64, b: u64) {
    let me = me();
    let mut g = lock();
    g.as_mut().unwrap().log_event(me, what, a, b, 0);
}

// ---------------------------------------------------------------------------------------
// threads

pub struct JoinHandle {
    tid: usize,
    os: Option<std::thread::JoinHandle<()>>,
}

fn new_thread(s: &mut Sim, clock: VC, name: &str) -> (usize, Arc<Parker>) {
    let tid = s.threads.len();
    assert!(tid < MAXT, "too many simulated threads");
    let parker = Parker::new();
    let prio = if s.seeded { 1000 + (s.rng_sched.next() % 1000) as u32 } else { 1000 };
    s.threads.push(Th {
        st: St::Runnable,
        parker: parker.clone(),
        clock,
        acq_pending: [0; MAXT],
        rel_fence: [0; MAXT],
        prio,
        consec: 0,
        killable: false,
        woken: false,
        pending_writes: Vec::new(),
        name: name.to_string(),
    });
    (tid, parker)
}

fn thread_main(tid: usize, parker: Arc<Parker>, f: Box<dyn FnOnce() + Send>) {
    TID.with(|t| t.set(tid));
    parker.park();
    let r = std::panic::catch_unwind(std::panic::AssertUnwindSafe(f));
    if let Err(e) = r {
        let msg = if let Some(s) = e.downcast_ref::<&str>() {
            s.to_string()
        } else if let Some(s) = e.downcast_ref::<String>() {
            s.clone()
        } else {
            "panic".to_string()
        };
        let g = lock();
        TID.with(|t| t.set(usize::MAX));
        let mut g = g;
        g.as_mut().unwrap().finish(Outcome::Panic { thread: tid, msg });
        drop(g);
        return;
    }
    let mut g = lock();
    let s = g.as_mut().unwrap();
    // flush plain writes of the final segment into the shadow (no split at exit)
    let p1 = s.cfg.p1;
    s.cfg.p1 = false;
    s.collect_plain_writes(tid);
    s.cfg.p1 = p1;
    s.threads[tid].st = St::Finished;
    s.threads[tid].clock[tid] += 1;
    for t in s.threads.iter_mut() {
        if t.st == St::BlockedJoin(tid) {
            t.st = St::Runnable;
        }
    }
    TID.with(|t| t.set(usize::MAX));
    leave(g, tid, true);
}

pub fn spawn<F: FnOnce() + Send + 'static>(name: &str, f: F) -> JoinHandle {
    yield_point(0xf0);
    let parent = me();
    let mut g = lock();
    let s = g.as_mut().unwrap();
    s.threads[parent].clock[parent] += 1;
    let clock = s.threads[parent].clock;
    let (tid, parker) = new_thread(s, clock, name);
    s.log_event(parent, "spawn", tid as u64, 0, 0);
    drop(g);
    let os = std::thread::Builder::new()
        .name(format!("sim-{name}"))
        .stack_size(512 * 1024)
        .spawn(move || thread_main(tid, parker, Box::new(f)))
        .unwrap();
    JoinHandle { tid, os: Some(os) }
}

impl JoinHandle {
    pub fn id(&self) -> usize {
        self.tid
    }
    /// Ok(()) if the thread finished, Err(()) if it was killed by the simulator.
    pub fn join(mut self) -> Result<(), ()> {
        let me = me();
        loop {
            let mut g = lock();
            let s = g.as_mut().unwrap();
            match s.threads[self.tid].st {
                St::Finished => {
                    let c = s.threads[self.tid].clock;
                    vc_join(&mut s.threads[me].clock, &c);
                    drop(g);
                    let _ = self.os.take().unwrap().join();
                    return Ok(());
                }
                St::Crashed => {
                    // observing that a participant is dead (in reality: via the kernel) is a
                    // synchronisation: everything it wrote before dying is visible afterwards
                    let c = s.threads[self.tid].clock;
                    vc_join(&mut s.threads[me].clock, &c);
                    return Err(());
                }
                _ => {
                    s.threads[me].st = St::BlockedJoin(self.tid);
                    leave(g, me, false);
                }
            }
        }
    }
}

/// Allow the simulator to kill the calling thread at any of its following yield points.
pub fn set_killable(on: bool) {
    let me = me();
    let mut g = lock();
    g.as_mut().unwrap().threads[me].killable = on;
}

pub fn thread_crashed(tid: usize) -> bool {
    let g = lock();
    g.as_ref().unwrap().threads[tid].st == St::Crashed
}

// ---------------------------------------------------------------------------------------
// blocking, virtual time, harness decisions

/// Block the caller until `wake(key)` or until virtual time reaches `deadline_ns`.
/// Returns true if woken, false on timeout. Callers re-check their condition in a loop.
pub fn block_on(key: usize, deadline_ns: Option<u64>) -> bool {
    let me = me();
    let mut g = lock();
    let s = g.as_mut().unwrap();
    s.steps += 1;
    if s.steps > s.cfg.step_cap {
        abort(g, Outcome::StepCap);
    }
    if let Some(d) = deadline_ns {
        if d <= s.now_ns {
            return false;
        }
    }
    s.threads[me].st = St::BlockedKey { key, deadline: deadline_ns };
    s.threads[me].woken = false;
    s.log_event(me, "block", 0, 0, 0);
    leave(g, me, false);
    let g = lock();
    g.as_ref().unwrap().threads[me].woken
}

pub fn wake(key: usize, all: bool) -> usize {
    let me = me();
    let mut g = lock();
    let s = g.as_mut().unwrap();
    let c = s.threads[me].clock;
    let mut n = 0;
    for t in s.threads.iter_mut() {
        if let St::BlockedKey { key: k, .. } = t.st {
            if k == key {
                t.st = St::Runnable;
                t.woken = true;
                vc_join(&mut t.clock, &c);
                n += 1;
                if !all {
                    break;
                }
            }
        }
    }
    n
}

/// Synchronise through an object that is not an instrumented atomic (model mutex, model trigger):
/// `release_to` stores the caller's clock into `slot`, `acquire_from` joins it.
pub fn clock_release(slot: &mut VC) {
    let me = me();
    let mut g = lock();
    let s = g.as_mut().unwrap();
    s.threads[me].clock[me] += 1;
    let c = s.threads[me].clock;
    vc_join(slot, &c);
}
pub fn clock_acquire(slot: &VC) {
    let me = me();
    let mut g = lock();
    let s = g.as_mut().unwrap();
    vc_join(&mut s.threads[me].clock, slot);
}

/// Happens-before through kernel objects that are not instrumented atomics (pthread mutex, rwlock,
/// semaphore): the releasing side publishes its clock under `key`, the acquiring side joins it.
pub fn sync_release(key: usize) {
    let me = me();
    let mut g = lock();
    let s = g.as_mut().unwrap();
    s.threads[me].clock[me] += 1;
    let c = s.threads[me].clock;
    let e = s.sync_clocks.entry(key).or_insert([0; MAXT]);
    vc_join(e, &c);
}
pub fn sync_acquire(key: usize) {
    let me = me();
    let mut g = lock();
    let s = g.as_mut().unwrap();
    if let Some(c) = s.sync_clocks.get(&key).cloned() {
        vc_join(&mut s.threads[me].clock, &c);
    }
}

/// A thread that spins (sched_yield / spin loop hint): a scheduling point that prefers somebody else.
pub fn spin_hint() {
    {
        let me = me();
        let mut g = lock();
        let s = g.as_mut().unwrap();
        let lim = s.cfg.spin_limit;
        s.threads[me].consec = s.threads[me].consec.max(lim + 1);
    }
    yield_point(0x7ff);
}

static VIRTUAL_PID: core::sync::atomic::AtomicU32 = core::sync::atomic::AtomicU32::new(4242);
/// the process id simulated code observes (a function of the scenario, never the real pid)
pub fn virtual_pid() -> u32 {
    VIRTUAL_PID.load(Ordering::Relaxed)
}
pub fn set_virtual_pid(p: u32) {
    VIRTUAL_PID.store(p, Ordering::Relaxed)
}

pub fn now_ns() -> u64 {
    let g = lock();
    g.as_ref().unwrap().now_ns
}
pub fn advance_ns(d: u64) {
    let mut g = lock();
    g.as_mut().unwrap().now_ns += d;
}
pub fn sleep_ns(d: u64) {
    let dl = now_ns() + d;
    // unique key nobody wakes
    block_on(usize::MAX - me(), Some(dl));
}

/// Harness level decision point: default 0, otherwise 1..=n.
pub fn choose(n: u32, prob: f64) -> u32 {
    if n == 0 {
        return 0;
    }
    let mut g = lock();
    let s = g.as_mut().unwrap();
    let c = s.decide(K_CHOOSE, |s| if s.rng_fault.f64() < prob { 1 + s.rng_fault.below(n as u64) as u32 } else { 0 });
    let c = c.min(n);
    if c != 0 {
        s.chooses += 1;
        s.sched_sig = fnv(fnv(s.sched_sig, 0x63), c as u64);
        let me = me();
        s.log_event(me, "choose", n as u64, c as u64, 0);
    }
    c
}

/// Register memory whose plain (non atomic) writes take part in write splitting.
pub fn arena(ptr: *const u8, len: usize) {
    let base = (ptr as usize + 7) & !7;
    let end = (ptr as usize + len) & !7;
    if end <= base {
        return;
    }
    let words = (end - base) / 8;
    let mut shadow = Vec::with_capacity(words);
    for w in 0..words {
        shadow.push(unsafe { core::ptr::read_volatile((base + w * 8) as *const u64) });
    }
    let mut g = lock();
    g.as_mut().unwrap().arenas.push(Arena { base, len: words * 8, shadow });
}

/// Temporarily leave the simulation on this thread (atomics become pass-through).
pub struct Pause(usize);
pub fn pause() -> Pause {
    let t = me();
    TID.with(|c| c.set(usize::MAX));
    Pause(t)
}
impl Drop for Pause {
    fn drop(&mut self) {
        TID.with(|c| c.set(self.0));
    }
}

// ---------------------------------------------------------------------------------------
// run

pub fn run<F: FnOnce() + Send + 'static>(cfg: RunCfg, decisions: Decisions, body: F) -> Report {
    assert!(!active(), "sim::run called from a simulated thread");
    let (seeded, seed, replay) = match decisions {
        Decisions::Seeded(s) => (true, s, HashMap::new()),
        Decisions::Replay(v) => (false, 0, v.into_iter().map(|d| (d.idx, d)).collect()),
    };
    let mut pct_points = Vec::new();
    let mut rng_sched = Rng::new(rng::mix(seed, 0x5c4ed));
    if let Strategy::Pct { depth, est_len } = cfg.strategy {
        for _ in 0..depth {
            pct_points.push(1 + rng_sched.below(est_len.max(1)));
        }
    }
    let sim = Sim {
        cfg,
        seeded,
        rng_sched,
        rng_mem: Rng::new(rng::mix(seed, 0x3e3)),
        rng_fault: Rng::new(rng::mix(seed, 0xfa017)),
        replay,
        next_decision: 0,
        devs: Vec::new(),
        threads: Vec::new(),
        locs: HashMap::new(),
        loc_ids: HashMap::new(),
        sync_clocks: HashMap::new(),
        arenas: Vec::new(),
        sc: [0; MAXT],
        now_ns: 1_000_000_000,
        pct_points,
        pct_low: 900,
        rep_fingerprint: 0xcbf29ce484222325,
        sched_sig: 0xcbf29ce484222325,
        steps: 0,
        switches: 0,
        stale_reads: 0,
        splits: 0,
        kills: 0,
        cas_spurious: 0,
        chooses: 0,
        finished: None,
        log: VecDeque::new(),
        event_seq: 0,
    };
    let parker;
    {
        let mut g = lock();
        assert!(g.is_none(), "one simulation per process at a time");
        *g = Some(Box::new(sim));
        *DONE.0.lock().unwrap() = false;
        let s = g.as_mut().unwrap();
        let (_, p) = new_thread(s, [0; MAXT], "main");
        parker = p;
    }
    let p2 = parker.clone();
    let os = std::thread::Builder::new()
        .name("sim-main".into())
        .stack_size(1024 * 1024)
        .spawn(move || thread_main(0, p2, Box::new(body)))
        .unwrap();
    parker.unpark();
    {
        let mut d = DONE.0.lock().unwrap();
        while !*d {
            d = DONE.1.wait(d).unwrap();
        }
    }
    let s = lock().take().unwrap();
    let outcome = s.finished.clone().unwrap_or(Outcome::Ok);
    if outcome == Outcome::Ok {
        let _ = os.join();
    }
    Report {
        outcome,
        fingerprint: s.rep_fingerprint,
        sched_sig: s.sched_sig,
        steps: s.steps,
        switches: s.switches,
        stale_reads: s.stale_reads,
        splits: s.splits,
        kills: s.kills,
        cas_spurious: s.cas_spurious,
        chooses: s.chooses,
        decisions: s.next_decision,
        deviations: s.devs.clone(),
        sim_time_ns: s.now_ns - 1_000_000_000,
        threads: s.threads.len(),
        log_tail: s.log.iter().map(|(seq, tid, what, loc, val, extra)| format!("#{} T{} {} L{} v={:#x} x={}", seq, tid, what, loc, val, extra)).collect(),
    }
}
