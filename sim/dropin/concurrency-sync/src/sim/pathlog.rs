// Path monitor (DESIGN.md §6.19): while enabled, every wrapped system call that takes a path (open, shm_open,
// unlink, shm_unlink, remove, mkdir, rmdir, chmod) records (call, path). The harness drains the log after each
// operation of a party and checks that the party stayed inside its own domain (root path, prefix).
use std::sync::Mutex;
use std::sync::atomic::{AtomicBool, Ordering};

static ON: AtomicBool = AtomicBool::new(false);
static LOG: Mutex<Vec<(&'static str, String)>> = Mutex::new(Vec::new());

pub fn enable(on: bool) {
    ON.store(on, Ordering::SeqCst);
    if let Ok(mut l) = LOG.lock() {
        l.clear();
    }
}
#[inline]
pub fn is_on() -> bool {
    ON.load(Ordering::Relaxed)
}
pub fn push(kind: &'static str, path: &str) {
    if is_on() && !path.is_empty() {
        // the log itself must not be recorded (no re-entrance: String allocation does not hit a wrapped call)
        if let Ok(mut l) = LOG.lock() {
            l.push((kind, path.to_string()));
        }
    }
}
pub fn drain() -> Vec<(&'static str, String)> {
    match LOG.lock() {
        Ok(mut l) => core::mem::take(&mut *l),
        Err(_) => Vec::new(),
    }
}
