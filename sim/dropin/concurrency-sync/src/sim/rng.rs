// splitmix64 seeding + xoshiro256** — the only source of randomness in the simulator.
pub fn mix(a: u64, b: u64) -> u64 {
    let mut z = a ^ b.wrapping_mul(0x9E3779B97F4A7C15).wrapping_add(0x632BE59BD9B4E019);
    z = (z ^ (z >> 30)).wrapping_mul(0xBF58476D1CE4E5B9);
    z = (z ^ (z >> 27)).wrapping_mul(0x94D049BB133111EB);
    z ^ (z >> 31)
}

#[derive(Clone, Debug)]
pub struct Rng {
    s: [u64; 4],
}

impl Rng {
    pub fn new(seed: u64) -> Self {
        let mut x = seed;
        let mut s = [0u64; 4];
        for i in 0..4 {
            x = x.wrapping_add(0x9E3779B97F4A7C15);
            let mut z = x;
            z = (z ^ (z >> 30)).wrapping_mul(0xBF58476D1CE4E5B9);
            z = (z ^ (z >> 27)).wrapping_mul(0x94D049BB133111EB);
            s[i] = z ^ (z >> 31);
        }
        Rng { s }
    }
    pub fn next(&mut self) -> u64 {
        let r = self.s[1].wrapping_mul(5).rotate_left(7).wrapping_mul(9);
        let t = self.s[1] << 17;
        self.s[2] ^= self.s[0];
        self.s[3] ^= self.s[1];
        self.s[1] ^= self.s[2];
        self.s[0] ^= self.s[3];
        self.s[2] ^= t;
        self.s[3] = self.s[3].rotate_left(45);
        r
    }
    /// uniform in 0..n (n ≥ 1)
    pub fn below(&mut self, n: u64) -> u64 {
        if n <= 1 { 0 } else { self.next() % n }
    }
    /// uniform in lo..=hi
    pub fn range(&mut self, lo: i64, hi: i64) -> i64 {
        lo + self.below((hi - lo + 1) as u64) as i64
    }
    pub fn f64(&mut self) -> f64 {
        (self.next() >> 11) as f64 / (1u64 << 53) as f64
    }
    pub fn chance(&mut self, p: f64) -> bool {
        self.f64() < p
    }
    pub fn pick<'a, T>(&mut self, v: &'a [T]) -> &'a T {
        &v[self.below(v.len() as u64) as usize]
    }
}
