// Remote mode (E-proc, DESIGN.md §4.5): a single threaded child process whose every yield point
// (wrapped system call, atomic operation on shared memory, sleep) is reported to the controller over a
// socket; the child continues only when the controller answers. The controller therefore owns the
// interleaving of several real processes, their clock, and can kill a process at any yield point.
//
// wire format (text lines):
//   child -> controller   Y <kind> <arg> <detail>      yield point (detail: path or empty)
//                         S <nanoseconds>               sleep request (virtual time)
//                         O <text>                      observation for the oracle
//                         D <status>                    script finished
//   controller -> child   G <now_ns>                    go on
//                         F <errno> <now_ns>            the call fails with errno (fault injection)
use core::sync::atomic::{AtomicBool, AtomicU32, AtomicU64, Ordering};
use std::io::{BufRead, BufReader, Write};
use std::os::unix::io::FromRawFd;
use std::os::unix::net::UnixStream;
use std::sync::Mutex;

static ACTIVE: AtomicBool = AtomicBool::new(false);
static NOW_NS: AtomicU64 = AtomicU64::new(1_000_000_000);
static VPID: AtomicU32 = AtomicU32::new(0);
static YIELDS: AtomicU64 = AtomicU64::new(0);
static IN_HOOK: AtomicBool = AtomicBool::new(false);

struct Chan {
    w: UnixStream,
    r: BufReader<UnixStream>,
}
static CHAN: Mutex<Option<Chan>> = Mutex::new(None);
static SHARED: Mutex<Vec<(usize, usize)>> = Mutex::new(Vec::new());

#[inline]
pub fn active() -> bool {
    ACTIVE.load(Ordering::Relaxed)
}

pub enum Answer {
    Go,
    Fail(i32),
}

/// Switch this (single threaded) process into remote mode, stepping over `fd`.
pub fn init(fd: i32, virtual_pid: u32) {
    let s = unsafe { UnixStream::from_raw_fd(fd) };
    let r = BufReader::new(s.try_clone().expect("clone control socket"));
    *CHAN.lock().unwrap() = Some(Chan { w: s, r });
    VPID.store(virtual_pid, Ordering::Relaxed);
    ACTIVE.store(true, Ordering::SeqCst);
}

pub fn virtual_pid() -> u32 {
    VPID.load(Ordering::Relaxed)
}
pub fn now_ns() -> u64 {
    NOW_NS.load(Ordering::Relaxed)
}
pub fn yields() -> u64 {
    YIELDS.load(Ordering::Relaxed)
}

fn exchange(line: &str, wait_reply: bool) -> Answer {
    let mut g = match CHAN.lock() {
        Ok(g) => g,
        Err(p) => p.into_inner(),
    };
    let c = match g.as_mut() {
        Some(c) => c,
        None => return Answer::Go,
    };
    if c.w.write_all(line.as_bytes()).is_err() {
        // controller is gone: nothing sensible can be done
        std::process::exit(3);
    }
    if !wait_reply {
        return Answer::Go;
    }
    let mut reply = String::new();
    match c.r.read_line(&mut reply) {
        Ok(0) | Err(_) => std::process::exit(3),
        Ok(_) => {}
    }
    let mut it = reply.split_whitespace();
    match it.next() {
        Some("G") => {
            if let Some(n) = it.next().and_then(|x| x.parse::<u64>().ok()) {
                NOW_NS.store(n, Ordering::Relaxed);
            }
            Answer::Go
        }
        Some("F") => {
            let e = it.next().and_then(|x| x.parse::<i32>().ok()).unwrap_or(5);
            if let Some(n) = it.next().and_then(|x| x.parse::<u64>().ok()) {
                NOW_NS.store(n, Ordering::Relaxed);
            }
            Answer::Fail(e)
        }
        _ => std::process::exit(3),
    }
}

/// A yield point: report and wait for the controller's decision.
pub fn yield_point(kind: &str, arg: i64, detail: &str) -> Answer {
    if !active() {
        return Answer::Go;
    }
    if IN_HOOK.swap(true, Ordering::Relaxed) {
        return Answer::Go; // re-entrancy (an atomic used while we talk to the controller)
    }
    YIELDS.fetch_add(1, Ordering::Relaxed);
    let clean: String = detail.chars().map(|c| if c == '\n' || c == ' ' { '_' } else { c }).collect();
    let a = exchange(&format!("Y {kind} {arg} {clean}\n"), true);
    IN_HOOK.store(false, Ordering::Relaxed);
    a
}

/// Sleep in virtual time.
pub fn sleep_ns(ns: u64) {
    if !active() {
        return;
    }
    if IN_HOOK.swap(true, Ordering::Relaxed) {
        return;
    }
    YIELDS.fetch_add(1, Ordering::Relaxed);
    let _ = exchange(&format!("S {ns}\n"), true);
    IN_HOOK.store(false, Ordering::Relaxed);
}

/// Report an observation (API result, list output) to the oracle in the controller.
pub fn observe(text: &str) {
    if !active() {
        return;
    }
    let was = IN_HOOK.swap(true, Ordering::Relaxed);
    let clean: String = text.chars().map(|c| if c == '\n' { ' ' } else { c }).collect();
    let _ = exchange(&format!("O {clean}\n"), false);
    IN_HOOK.store(was, Ordering::Relaxed);
}

pub fn done(status: i32) {
    if !active() {
        return;
    }
    IN_HOOK.store(true, Ordering::Relaxed);
    let _ = exchange(&format!("D {status}\n"), false);
}

pub fn register_shared(addr: usize, len: usize) {
    if let Ok(mut g) = SHARED.lock() {
        g.push((addr, len));
    }
}
pub fn unregister_shared(addr: usize) {
    if let Ok(mut g) = SHARED.lock() {
        g.retain(|r| r.0 != addr);
    }
}

/// Called by every instrumented atomic operation while remote mode is active: an operation on a word
/// inside a shared mapping is a yield point (kind 0 load, 1 store, 2 read-modify-write).
#[inline]
pub fn atomic_hook(addr: usize, kind: u8) {
    if IN_HOOK.load(Ordering::Relaxed) {
        return;
    }
    let shared = match SHARED.try_lock() {
        Ok(g) => g.iter().any(|r| addr >= r.0 && addr < r.0 + r.1),
        Err(_) => false,
    };
    if shared {
        let _ = yield_point(match kind {
            0 => "shm-load",
            1 => "shm-store",
            _ => "shm-rmw",
        }, 0, "");
    }
}
