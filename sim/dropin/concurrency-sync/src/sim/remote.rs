// Remote mode (E-proc, DESIGN.md §4.5): placeholder until the process engine is wired in.
#[inline]
pub fn active() -> bool {
    false
}
#[inline]
pub fn atomic_hook(_addr: usize, _kind: u8) {}
