// System-call fault injection for the in-process engines (DESIGN.md §4.4, "failing system calls"): while armed,
// the n-th wrapped call of an eligible kind fails with the chosen errno instead of being carried out. The
// harness arms it around ONE operation of one party, so the failure lands inside an operation that has
// in-flight state, and learns afterwards whether and where it fired.
use std::sync::Mutex;
use std::sync::atomic::{AtomicBool, AtomicU64, Ordering};

static ARMED: AtomicBool = AtomicBool::new(false);
static COUNT: AtomicU64 = AtomicU64::new(0);
static NTH: AtomicU64 = AtomicU64::new(0);
static ERRNO: AtomicU64 = AtomicU64::new(0);
static FIRED: Mutex<Option<(String, u64)>> = Mutex::new(None);

/// kinds of calls that can be made to fail (creation and mapping of files and shared memory)
pub fn eligible(kind: &str) -> bool {
    matches!(kind, "shm_open-create" | "shm_open" | "open-create" | "open" | "ftruncate" | "mmap" | "mkdir" | "fchmod")
}
pub fn arm(nth: u64, errno: i32) {
    COUNT.store(0, Ordering::SeqCst);
    NTH.store(nth.max(1), Ordering::SeqCst);
    ERRNO.store(errno as u64, Ordering::SeqCst);
    *FIRED.lock().unwrap() = None;
    ARMED.store(true, Ordering::SeqCst);
}
/// returns (kind, ordinal) of the call that was made to fail, and how many eligible calls were seen
pub fn disarm() -> (Option<(String, u64)>, u64) {
    ARMED.store(false, Ordering::SeqCst);
    (FIRED.lock().unwrap().take(), COUNT.load(Ordering::SeqCst))
}
#[inline]
pub fn is_armed() -> bool {
    ARMED.load(Ordering::Relaxed)
}
pub fn should_fail(kind: &str) -> Option<i32> {
    if !is_armed() || !eligible(kind) {
        return None;
    }
    let c = COUNT.fetch_add(1, Ordering::SeqCst) + 1;
    if c == NTH.load(Ordering::SeqCst) {
        *FIRED.lock().unwrap() = Some((kind.to_string(), c));
        return Some(ERRNO.load(Ordering::SeqCst) as i32);
    }
    None
}
