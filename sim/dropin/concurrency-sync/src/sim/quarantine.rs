// Address stability (DESIGN.md §4.1): the simulator identifies memory locations by address. If an
// allocator handed a freed block to a new object during a run, whether two objects share an identity
// would depend on the heap's history (timing of thread exits in earlier runs, ...). While a simulation
// runs, frees (Rust global allocator and the PAL's malloc/free) are therefore quarantined and carried
// out after the run.
use core::sync::atomic::{AtomicBool, AtomicUsize, Ordering};

const QCAP: usize = 1 << 17;
static Q_ON: AtomicBool = AtomicBool::new(false);
static POISON: AtomicBool = AtomicBool::new(false);
/// scribble over quarantined blocks (enabled in the forked child of the engines that run one scenario per
/// process; the in-process thread engines keep the blocks untouched)
pub fn set_poison(on: bool) {
    POISON.store(on, Ordering::SeqCst);
}
static Q_N: AtomicUsize = AtomicUsize::new(0);
static mut Q_BUF: [(usize, usize, usize); QCAP] = [(0, 0, 0); QCAP];

pub fn set(on: bool) {
    Q_ON.store(on, Ordering::SeqCst);
}
#[inline]
pub fn is_on() -> bool {
    Q_ON.load(Ordering::Relaxed)
}
/// Returns true if the block was taken into quarantine (the caller must not free it now).
/// `align == 0` marks a block that has to be released with libc free().
pub fn push(ptr: usize, size: usize, align: usize) -> bool {
    if !is_on() {
        return false;
    }
    // the block stays allocated until the run is over, so a use-after-free would read perfectly intact data:
    // scribble over it (what MALLOC_PERTURB_ does for a real free), then dangling payloads show in the canaries
    if size > 0 && POISON.load(Ordering::Relaxed) {
        unsafe { core::ptr::write_bytes(ptr as *mut u8, 0xDD, size) };
    }
    let i = Q_N.fetch_add(1, Ordering::Relaxed);
    if i < QCAP {
        unsafe { (*core::ptr::addr_of_mut!(Q_BUF))[i] = (ptr, size, align) };
    }
    // beyond the capacity the block is leaked (still never reused)
    true
}
pub fn flush(mut release: impl FnMut(usize, usize, usize)) {
    let n = Q_N.swap(0, Ordering::SeqCst).min(QCAP);
    for i in 0..n {
        let (p, s, a) = unsafe { (*core::ptr::addr_of!(Q_BUF))[i] };
        release(p, s, a);
    }
}
