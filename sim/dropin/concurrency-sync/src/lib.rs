// Drop-in for iceoryx2-pal-concurrency-sync: instrumented atomics + simulator core;
// every other module is the working tree's file, included unchanged.
#![allow(clippy::all)]
#![allow(unused)]
extern crate alloc;
extern crate std;

const SPIN_REPETITIONS: u64 = 10000;

pub mod atomic;
pub mod sim;

#[path = "/repo/iceoryx2-pal/concurrency-sync/src/cell.rs"]
pub mod cell;
#[path = "/repo/iceoryx2-pal/concurrency-sync/src/lazy_lock.rs"]
pub mod lazy_lock;
#[path = "/repo/iceoryx2-pal/concurrency-sync/src/once.rs"]
pub mod once;
#[path = "/repo/iceoryx2-pal/concurrency-sync/src/spin_lock.rs"]
pub mod spin_lock;
#[path = "/repo/iceoryx2-pal/concurrency-sync/src/strategy/mod.rs"]
pub mod strategy;

#[derive(Debug, PartialEq, Eq)]
pub enum WaitAction {
    Continue,
    Abort,
}

#[derive(Debug, PartialEq, Eq)]
pub enum WaitResult {
    Interrupted,
    Success,
}
