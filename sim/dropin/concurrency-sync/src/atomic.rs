// Layout-identical instrumented atomics (DESIGN.md §3.1). Outside a simulation every
// method is the plain core atomic operation.
#[allow(clippy::disallowed_types)]
pub type Ordering = core::sync::atomic::Ordering;
use crate::sim::{self, Op};

pub fn fence(o: Ordering) {
    if sim::active() { sim::fence(o) } else { core::sync::atomic::fence(o) }
}

macro_rules! conv {
    (bool, $v:expr) => { ($v != 0) };
    ($p:ty, $v:expr) => { ($v as $p) };
}
macro_rules! sim_atomic {
    ($name:ident, $inner:ty, $prim:tt) => {
        #[repr(transparent)]
        #[derive(Default)]
        pub struct $name($inner);
        impl core::fmt::Debug for $name {
            fn fmt(&self, f: &mut core::fmt::Formatter<'_>) -> core::fmt::Result { self.0.fmt(f) }
        }
        impl From<$prim> for $name { fn from(v: $prim) -> Self { Self::new(v) } }
        impl $name {
            #[inline] pub const fn new(v: $prim) -> Self { Self(<$inner>::new(v)) }
            #[inline] fn addr(&self) -> usize { self as *const _ as usize }
            #[inline] fn raw(&self) -> u64 { self.0.load(Ordering::Relaxed) as u64 }
            #[inline] fn set_raw(&self, v: u64) { self.0.store(conv!($prim, v), Ordering::Relaxed) }
            #[inline] fn rmw<F: FnMut($prim) -> Option<$prim>>(&self, s: Ordering, fl: Ordering, weak: bool, mut f: F) -> Result<$prim, $prim> {
                if sim::remote::active() { sim::remote::atomic_hook(self.addr(), 2); }
                if !sim::active() { return self.0.fetch_update(s, fl, |x| f(x)); }
                let r = sim::atomic_op(self.addr(), core::mem::size_of::<$prim>(), &|| self.raw(), Op::Rmw { success: s, failure: fl, weak },
                    &mut |cur| f(conv!($prim, cur)).map(|n| n as u64), &|v| self.set_raw(v));
                match r { Ok(v) => Ok(conv!($prim, v)), Err(v) => Err(conv!($prim, v)) }
            }
            #[inline] pub fn load(&self, o: Ordering) -> $prim {
                if sim::remote::active() { sim::remote::atomic_hook(self.addr(), 0); }
                if !sim::active() { return self.0.load(o); }
                let r = sim::atomic_op(self.addr(), core::mem::size_of::<$prim>(), &|| self.raw(), Op::Load(o), &mut |_| None, &|_| ());
                conv!($prim, r.unwrap_or_else(|e| e))
            }
            #[inline] pub fn store(&self, v: $prim, o: Ordering) {
                if sim::remote::active() { sim::remote::atomic_hook(self.addr(), 1); }
                if !sim::active() { return self.0.store(v, o); }
                let _ = sim::atomic_op(self.addr(), core::mem::size_of::<$prim>(), &|| self.raw(), Op::Store(o), &mut |_| Some(v as u64), &|x| self.set_raw(x));
            }
            #[inline] pub fn swap(&self, v: $prim, o: Ordering) -> $prim { self.rmw(o, relaxed_of(o), false, |_| Some(v)).unwrap() }
            #[inline] pub fn compare_exchange(&self, c: $prim, n: $prim, s: Ordering, f: Ordering) -> Result<$prim, $prim> {
                self.rmw(s, f, false, |x| if x == c { Some(n) } else { None })
            }
            #[inline] pub fn compare_exchange_weak(&self, c: $prim, n: $prim, s: Ordering, f: Ordering) -> Result<$prim, $prim> {
                self.rmw(s, f, true, |x| if x == c { Some(n) } else { None })
            }
            #[inline] pub fn fetch_update<F: FnMut($prim) -> Option<$prim>>(&self, s: Ordering, f: Ordering, g: F) -> Result<$prim, $prim> {
                self.rmw(s, f, false, g)
            }
            #[inline] pub fn get_mut(&mut self) -> &mut $prim { self.0.get_mut() }
            #[inline] pub fn into_inner(self) -> $prim { self.0.into_inner() }
            #[inline] pub const fn as_ptr(&self) -> *mut $prim { self.0.as_ptr() }
        }
    };
}
#[inline]
fn relaxed_of(o: Ordering) -> Ordering {
    match o {
        Ordering::AcqRel | Ordering::Acquire => Ordering::Acquire,
        Ordering::SeqCst => Ordering::SeqCst,
        _ => Ordering::Relaxed,
    }
}
macro_rules! sim_arith {
    ($name:ident, $prim:ty) => {
        impl $name {
            #[inline] pub fn fetch_add(&self, v: $prim, o: Ordering) -> $prim { self.rmw(o, relaxed_of(o), false, |x| Some(x.wrapping_add(v))).unwrap() }
            #[inline] pub fn fetch_sub(&self, v: $prim, o: Ordering) -> $prim { self.rmw(o, relaxed_of(o), false, |x| Some(x.wrapping_sub(v))).unwrap() }
            #[inline] pub fn fetch_max(&self, v: $prim, o: Ordering) -> $prim { self.rmw(o, relaxed_of(o), false, |x| Some(x.max(v))).unwrap() }
            #[inline] pub fn fetch_min(&self, v: $prim, o: Ordering) -> $prim { self.rmw(o, relaxed_of(o), false, |x| Some(x.min(v))).unwrap() }
            #[inline] pub fn fetch_and(&self, v: $prim, o: Ordering) -> $prim { self.rmw(o, relaxed_of(o), false, |x| Some(x & v)).unwrap() }
            #[inline] pub fn fetch_or(&self, v: $prim, o: Ordering) -> $prim { self.rmw(o, relaxed_of(o), false, |x| Some(x | v)).unwrap() }
            #[inline] pub fn fetch_xor(&self, v: $prim, o: Ordering) -> $prim { self.rmw(o, relaxed_of(o), false, |x| Some(x ^ v)).unwrap() }
            #[inline] pub fn fetch_nand(&self, v: $prim, o: Ordering) -> $prim { self.rmw(o, relaxed_of(o), false, |x| Some(!(x & v))).unwrap() }
        }
    };
}
macro_rules! sim_int {
    ($name:ident, $inner:ty, $prim:tt) => { sim_atomic!($name, $inner, $prim); sim_arith!($name, $prim); };
}
sim_atomic!(AtomicBool, core::sync::atomic::AtomicBool, bool);
impl AtomicBool {
    #[inline] pub fn fetch_and(&self, v: bool, o: Ordering) -> bool { self.rmw(o, relaxed_of(o), false, |x| Some(x & v)).unwrap() }
    #[inline] pub fn fetch_or(&self, v: bool, o: Ordering) -> bool { self.rmw(o, relaxed_of(o), false, |x| Some(x | v)).unwrap() }
    #[inline] pub fn fetch_xor(&self, v: bool, o: Ordering) -> bool { self.rmw(o, relaxed_of(o), false, |x| Some(x ^ v)).unwrap() }
    #[inline] pub fn fetch_nand(&self, v: bool, o: Ordering) -> bool { self.rmw(o, relaxed_of(o), false, |x| Some(!(x & v))).unwrap() }
}
sim_int!(AtomicUsize, core::sync::atomic::AtomicUsize, usize);
sim_int!(AtomicIsize, core::sync::atomic::AtomicIsize, isize);
sim_int!(AtomicU8, core::sync::atomic::AtomicU8, u8);
sim_int!(AtomicU16, core::sync::atomic::AtomicU16, u16);
sim_int!(AtomicU32, core::sync::atomic::AtomicU32, u32);
sim_int!(AtomicU64, core::sync::atomic::AtomicU64, u64);
sim_int!(AtomicI8, core::sync::atomic::AtomicI8, i8);
sim_int!(AtomicI16, core::sync::atomic::AtomicI16, i16);
sim_int!(AtomicI32, core::sync::atomic::AtomicI32, i32);
sim_int!(AtomicI64, core::sync::atomic::AtomicI64, i64);
include!(concat!(env!("OUT_DIR"), "/generic_atomic.rs"));
