// C02 — request/response payload lifetime with dynamic (growing) data segments and several channels per connection
// (E-api). Clients keep several requests active (one channel each), clients and servers loan slices of growing
// length on BestFit / PowerOfTwo / Static segments, ports are dropped while requests, responses and loans of theirs
// are still held by the other side. The oracle is about memory only (routing and order are C11's business):
// every payload is self-describing (tag, length, position); every held ActiveRequest (request payload) and
// every held Response is re-read after every call of anybody; nothing received was never sent; no crash (ranges
// of removed connections and segments are poisoned, DESIGN §3.2); after everything was released both sides can
// loan again (nothing leaked).
use crate::h_alloc::Elem;
use crate::h_ps::{isolated_config, leftovers, remove_leftovers};
use crate::kit::*;
use iceoryx2::active_request::ActiveRequest;
use iceoryx2::pending_response::PendingResponse;
use iceoryx2::port::client::Client;
use iceoryx2::port::server::Server;
use iceoryx2::prelude::*;
use iceoryx2::response::Response;
use iceoryx2_pal_concurrency_sync::sim::{Decisions, Outcome, rng::Rng};
use serde_json::{Value, json};
use std::collections::BTreeMap;
use std::sync::{Arc, Mutex};

#[derive(Default)]
pub struct Errs {
    pub errs: Vec<(String, String)>,
    pub probes: BTreeMap<&'static str, u64>,
}
impl Errs {
    fn probe(&mut self, k: &'static str) {
        *self.probes.entry(k).or_default() += 1;
    }
    fn err(&mut self, c: &str, m: String) {
        if self.errs.len() < 4 {
            self.errs.push((c.into(), m));
        }
    }
}

fn intact(p: &[u64], t: u64, len: usize) -> bool {
    p.len() == len && p.iter().enumerate().all(|(i, x)| *x == <u64 as Elem>::at(t, len, i))
}
fn strategy_of(k: i64) -> AllocationStrategy {
    match k {
        0 => AllocationStrategy::Static,
        1 => AllocationStrategy::BestFit,
        _ => AllocationStrategy::PowerOfTwo,
    }
}

type Pend<S> = PendingResponse<S, [u64], (), [u64], ()>;
type Act<S> = ActiveRequest<S, [u64], (), [u64], ()>;

fn scenario<S: Service>(plan: &Plan, errs: &Arc<Mutex<Errs>>) {
    let config = isolated_config("rd");
    let node = match NodeBuilder::new().config(&config).create::<S>() {
        Ok(n) => n,
        Err(e) => {
            errs.lock().unwrap().err("setup", format!("node: {e:?}"));
            return;
        }
    };
    let p = |k: &str| plan.p(k) as usize;
    let max_active = p("max_active").max(1);
    let sname: ServiceName = format!("vsim/rd/{}", plan.p("svc")).as_str().try_into().unwrap();
    let service = match node
        .service_builder(&sname)
        .request_response::<[u64], [u64]>()
        .max_clients(2)
        .max_servers(2)
        .max_active_requests_per_client(max_active)
        .max_response_buffer_size(p("resp_buffer").max(1))
        .max_borrowed_responses_per_pending_response(p("max_borrow").max(1))
        .enable_safe_overflow_for_requests(false)
        .enable_safe_overflow_for_responses(false)
        .create()
    {
        Ok(s) => s,
        Err(e) => {
            errs.lock().unwrap().err("setup", format!("service: {e:?}"));
            return;
        }
    };
    let (cs, ss, clen, slen) = (plan.p("client_strategy"), plan.p("server_strategy"), p("client_len").max(1), p("server_len").max(1));
    let mk_client = || service.client_builder().initial_max_slice_len(clen).allocation_strategy(strategy_of(cs)).backpressure_strategy(BackpressureStrategy::DiscardData).create();
    let mk_server = || service.server_builder().initial_max_slice_len(slen).allocation_strategy(strategy_of(ss)).max_loaned_responses_per_request(2).backpressure_strategy(BackpressureStrategy::DiscardData).create();
    let mut clients: Vec<Option<Client<S, [u64], (), [u64], ()>>> = vec![mk_client().ok(), None];
    let mut servers: Vec<Option<Server<S, [u64], (), [u64], ()>>> = vec![mk_server().ok(), None];
    // (client slot, tag, pending response)
    let mut pend: Vec<(usize, u64, Pend<S>)> = Vec::new();
    // (server slot, request tag, request length, active request)
    let mut acts: Vec<(usize, u64, usize, Act<S>)> = Vec::new();
    // (tag, len, response, client slot that received it)
    let mut resps: Vec<(u64, usize, Response<S, [u64], ()>, usize)> = Vec::new();
    let mut sent: BTreeMap<u64, usize> = BTreeMap::new();
    let mut tag = 0xC0_0000u64;
    for (opi, o) in plan.threads[0].iter().enumerate() {
        let what = format!("op #{opi} {}{:?} (client {:?}/{clen}, server {:?}/{slen}, {max_active} active requests per client)", o.c, o.a, strategy_of(cs), strategy_of(ss));
        crate::kit::crashnote::set(&what);
        let mut e = errs.lock().unwrap();
        let i = o.arg(0) as usize % 2;
        match o.c.as_str() {
            "cc" => {
                if clients[i].is_none() {
                    clients[i] = mk_client().ok();
                }
            }
            "cs" => {
                if servers[i].is_none() {
                    servers[i] = mk_server().ok();
                }
            }
            "dc" => {
                // the client goes; its pending responses go first or outlive it (seeded)
                if clients[i].is_some() {
                    if o.arg(1) % 2 == 0 {
                        pend.retain(|x| x.0 != i);
                    }
                    clients[i] = None;
                    e.probe("client_dropped");
                }
            }
            "ds" => {
                if servers[i].is_some() {
                    if o.arg(1) % 2 == 0 {
                        acts.retain(|x| x.0 != i);
                    }
                    servers[i] = None;
                    e.probe("server_dropped");
                }
            }
            "req" => {
                if let Some(c) = clients[i].as_ref() {
                    let len = (o.arg(1) as usize).max(1);
                    match c.loan_slice_uninit(len) {
                        Ok(l) => {
                            tag += 1;
                            let t = tag;
                            let l = l.write_from_fn(|k| <u64 as Elem>::at(t, len, k));
                            match l.send() {
                                Ok(pr) => {
                                    sent.insert(t, len);
                                    pend.push((i, t, pr));
                                    e.probe("request_sent");
                                    if len > clen {
                                        e.probe("request_forced_growth");
                                    }
                                }
                                Err(_) => e.probe("request_refused"),
                            }
                        }
                        Err(_) => e.probe("request_loan_refused"),
                    }
                }
            }
            "srecv" => {
                if let Some(s) = servers[i].as_ref() {
                    match s.receive() {
                        Ok(Some(a)) => {
                            e.probe("request_received");
                            let pl = a.payload();
                            match pl.first().and_then(|t| sent.get(t).map(|l| (*t, *l))) {
                                None => e.err("corrupt", format!("{what}: server {i} received a request of {} elements starting {:x?} that was never sent", pl.len(), &pl[..pl.len().min(4)])),
                                Some((t, len)) => {
                                    if !intact(pl, t, len) {
                                        e.err("corrupt", format!("{what}: request {t:#x} was sent with {len} elements; the server reads {} elements starting {:x?}", pl.len(), &pl[..pl.len().min(4)]));
                                    }
                                    acts.push((i, t, len, a));
                                }
                            }
                        }
                        Ok(None) => {}
                        Err(_) => e.probe("server_receive_refused"),
                    }
                }
            }
            "resp" => {
                if !acts.is_empty() {
                    let k = o.arg(0) as usize % acts.len();
                    let len = (o.arg(1) as usize).max(1);
                    match acts[k].3.loan_slice_uninit(len) {
                        Ok(l) => {
                            tag += 1;
                            let t = tag;
                            match l.write_from_fn(|j| <u64 as Elem>::at(t, len, j)).send() {
                                Ok(()) => {
                                    sent.insert(t, len);
                                    e.probe("response_sent");
                                    if len > slen {
                                        e.probe("response_forced_growth");
                                    }
                                }
                                Err(_) => e.probe("response_refused"),
                            }
                        }
                        Err(_) => e.probe("response_loan_refused"),
                    }
                }
            }
            "crecv" => {
                if !pend.is_empty() {
                    let k = o.arg(0) as usize % pend.len();
                    match pend[k].2.receive() {
                        Ok(Some(r)) => {
                            e.probe("response_received");
                            let pl = r.payload();
                            match pl.first().and_then(|t| sent.get(t).map(|l| (*t, *l))) {
                                None => e.err("corrupt", format!("{what}: a response of {} elements starting {:x?} was never sent", pl.len(), &pl[..pl.len().min(4)])),
                                Some((t, len)) => {
                                    if !intact(pl, t, len) {
                                        e.err("corrupt", format!("{what}: response {t:#x} was sent with {len} elements; the client reads {} elements starting {:x?}", pl.len(), &pl[..pl.len().min(4)]));
                                    }
                                    resps.push((t, len, r, pend[k].0));
                                }
                            }
                        }
                        Ok(None) => {}
                        Err(iceoryx2::port::ReceiveError::ExceedsMaxBorrows) => {
                            e.probe("client_receive_refused");
                            // responses that were skipped or dropped must give their borrow back
                            // the limit is per channel, and a channel is re-used by the next request: responses of
                            // earlier requests that are still held count. Sound bound: all responses this client
                            // slot holds, whatever channel they came from.
                            let held = resps.iter().filter(|x| x.3 == pend[k].0).count();
                            if held < p("max_borrow").max(1) {
                                e.err("borrow-leaked", format!("{what}: receive on the pending response of request {:#x} fails with ExceedsMaxBorrows although client {} holds only {held} responses in total (limit {} per channel)", pend[k].1, pend[k].0, p("max_borrow").max(1)));
                            }
                        }
                        Err(_) => e.probe("client_receive_refused"),
                    }
                }
            }
            "dpend" => {
                if !pend.is_empty() {
                    let k = o.arg(0) as usize % pend.len();
                    drop(pend.remove(k));
                }
            }
            "dact" => {
                if !acts.is_empty() {
                    let k = o.arg(0) as usize % acts.len();
                    drop(acts.remove(k));
                }
            }
            "dresp" => {
                if !resps.is_empty() {
                    let k = o.arg(0) as usize % resps.len();
                    drop(resps.remove(k));
                }
            }
            _ => {}
        }
        // every payload that is still held must read what was written
        for (s, t, len, a) in acts.iter() {
            if !intact(a.payload(), *t, *len) {
                e.err("payload-changed", format!("after {what}: the request {t:#x} held by server {s} now reads {:x?}", &a.payload()[..a.payload().len().min(4)]));
            }
        }
        for (t, len, r, _) in resps.iter() {
            if !intact(r.payload(), *t, *len) {
                e.err("payload-changed", format!("after {what}: the held response {t:#x} now reads {:x?}", &r.payload()[..r.payload().len().min(4)]));
            }
        }
        if !e.errs.is_empty() {
            break;
        }
    }
    // epilogue: after everything was released a fresh client/server pair of the same service can complete
    // max_active round trips (nothing leaked on either side)
    {
        let mut e = errs.lock().unwrap();
        if e.errs.is_empty() {
            crate::kit::crashnote::set("epilogue");
            resps.clear();
            pend.clear();
            acts.clear();
            clients.clear();
            servers.clear();
            if let (Ok(c), Ok(s)) = (mk_client(), mk_server()) {
                let mut held = Vec::new();
                for k in 0..max_active {
                    match c.loan_slice_uninit(clen) {
                        Ok(l) => match l.write_from_fn(|j| j as u64).send() {
                            Ok(p) => held.push(p),
                            Err(err) => {
                                e.err("leak", format!("epilogue: request {k} of {max_active} on a fresh client failed with {err:?}"));
                                break;
                            }
                        },
                        Err(err) => {
                            e.err("leak", format!("epilogue: loan {k} of {max_active} on a fresh client failed with {err:?}"));
                            break;
                        }
                    }
                }
                let mut got = 0;
                while let Ok(Some(a)) = s.receive() {
                    got += 1;
                    drop(a);
                }
                if e.errs.is_empty() && got != max_active {
                    e.err("lost", format!("epilogue: a fresh server received {got} of the {max_active} requests of a fresh client"));
                }
                e.probe("epilogue_round_trips");
            }
        }
    }
    crate::kit::crashnote::set("tear-down");
}

pub struct ReqRespDynHarness {
    pub ipc: bool,
}
impl Harness for ReqRespDynHarness {
    fn name(&self) -> &'static str {
        if self.ipc { "c02.reqresp_dynamic_ipc" } else { "c02.reqresp_dynamic_local" }
    }
    fn property(&self) -> &'static str {
        "C02"
    }
    fn modes(&self) -> Vec<(&'static str, u32, bool)> {
        vec![("seq", 1, true)]
    }
    fn quick_runs(&self) -> u64 {
        if self.ipc { 1000 } else { 600 }
    }
    fn isolate(&self) -> bool {
        true
    }
    fn components(&self) -> Value {
        json!({"real": ["iceoryx2 request-response with slice payloads, clients and servers on Static/BestFit/PowerOfTwo data segments, several channels per connection", if self.ipc { "ipc concepts" } else { "local concepts" }], "stub": ["clock", "pid", "choice of which party acts next"]})
    }
    fn generate(&self, r: &mut Rng, mode: &str) -> (Plan, CfgSer) {
        let mut params = BTreeMap::new();
        params.insert("svc".into(), r.range(0, 1_000_000));
        params.insert("max_active".into(), r.range(1, 3));
        params.insert("resp_buffer".into(), r.range(1, 3));
        params.insert("max_borrow".into(), r.range(1, 3));
        params.insert("client_strategy".into(), r.range(0, 2));
        params.insert("server_strategy".into(), r.range(0, 2));
        params.insert("client_len".into(), r.range(1, 8));
        params.insert("server_len".into(), r.range(1, 8));
        let mut ceiling = 8i64;
        let mut ops = Vec::new();
        // a filled pipeline first: every channel of client 0 has a request at the server, a response in the
        // buffer and one held; then the seeded history (drops, growth, re-creation) starts
        let ma = params["max_active"];
        for k in 0..ma {
            ops.push(Op::new("req", &[0, r.range(1, 8)]));
            ops.push(Op::new("srecv", &[0]));
            ops.push(Op::new("resp", &[k, r.range(1, 40)]));
            ops.push(Op::new("resp", &[k, r.range(1, 40)]));
            ops.push(Op::new("crecv", &[k]));
        }
        for _ in 0..r.range(12, 60) {
            if r.chance(0.25) {
                ceiling += r.range(1, 30);
            }
            let len = if r.chance(0.3) { r.range(1, 8) } else { r.range(ceiling / 2, ceiling) };
            let k = r.below(100);
            ops.push(if k < 22 {
                Op::new("req", &[r.range(0, 1), len])
            } else if k < 38 {
                Op::new("srecv", &[r.range(0, 1)])
            } else if k < 56 {
                Op::new("resp", &[r.range(0, 5), len])
            } else if k < 70 {
                Op::new("crecv", &[r.range(0, 5)])
            } else if k < 76 {
                Op::new("dpend", &[r.range(0, 5)])
            } else if k < 81 {
                Op::new("dact", &[r.range(0, 5)])
            } else if k < 86 {
                Op::new("dresp", &[r.range(0, 5)])
            } else if k < 90 {
                Op::new("dc", &[r.range(0, 1), r.range(0, 1)])
            } else if k < 94 {
                Op::new("ds", &[r.range(0, 1), r.range(0, 1)])
            } else if k < 97 {
                Op::new("cc", &[r.range(0, 1)])
            } else {
                Op::new("cs", &[r.range(0, 1)])
            });
        }
        let plan = Plan { harness: self.name().into(), mode: mode.into(), params, threads: vec![ops] };
        let mut cfg = CfgSer::base();
        cfg.step_cap = 6_000_000;
        (plan, cfg)
    }
    fn execute(&self, plan: &Plan, cfg: &CfgSer, dec: Decisions) -> RunResult {
        let errs = Arc::new(Mutex::new(Errs::default()));
        let e2 = errs.clone();
        let plan2 = plan.clone();
        let ipc = self.ipc;
        crate::kit::crashnote::install_segv_reporter();
        let report = sim_run(cfg.to_cfg(), dec, move || {
            if ipc {
                scenario::<ipc::Service>(&plan2, &e2)
            } else {
                scenario::<local::Service>(&plan2, &e2)
            }
        });
        let pid = unsafe { libc::getpid() };
        let _ = leftovers("rd", pid);
        remove_leftovers("rd", pid);
        #[allow(unused_mut)]
        let mut g = take_after_run(&errs);
        let mut violation = g.errs.first().map(|(c, m)| Violation { class: c.clone(), msg: m.clone() });
        let mut inconclusive = false;
        if violation.is_none() {
            match &report.outcome {
                Outcome::Ok => {}
                Outcome::StepCap => inconclusive = true,
                Outcome::Deadlock { blocked } => violation = viol("deadlock", format!("threads {blocked:?} blocked for ever")),
                Outcome::Panic { thread, msg } => violation = viol("panic", format!("thread {thread} panicked: {}", &msg[..msg.len().min(400)])),
            }
        }
        let mut report = report;
        report.chooses = plan.ops() as u64;
        report.sched_sig = hash_str(&serde_json::to_string(plan).unwrap());
        let probes = g.probes.iter().map(|(k, v)| (*k, *v)).collect();
        RunResult { report, violation, beyond: None, probes, inconclusive }
    }
}
