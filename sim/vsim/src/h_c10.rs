// C10 — port registry snapshots: never torn, never ghost, eventually exact (DESIGN.md §6.10).
use crate::kit::*;
use iceoryx2_bb_lock_free::mpmc::container::{ContainerHandle, ContainerState, FixedSizeContainer};
use iceoryx2_bb_lock_free::mpmc::robust_unique_index_set::OwnerId;
use iceoryx2_bb_lock_free::mpmc::unique_index_set_enums::ReleaseMode;
use iceoryx2_pal_concurrency_sync::sim::{self, Decisions, Outcome, rng::Rng};
use serde_json::{Value, json};
use std::collections::BTreeMap;
use std::sync::{Arc, Mutex};

type Rec = [u64; 4];
fn rec(v: u64) -> Rec {
    [v, !v, v.wrapping_mul(0x9E3779B97F4A7C15), v ^ 0x5555_5555_5555_5555]
}
fn rec_ok(r: &Rec) -> bool {
    *r == rec(r[0])
}

const GHOST_OWNER: u64 = 77;

#[derive(Default)]
struct Shared {
    /// value -> (add invoked, add returned, remove invoked, remove returned, clock at add invocation)
    life: BTreeMap<u64, (u64, Option<u64>, Option<u64>, Option<u64>, [u32; 8])>,
    errs: Vec<(String, String)>,
    beyond: Vec<(String, String)>,
    probes: BTreeMap<&'static str, u64>,
    refreshes: u64,
    rec_inflight: u32,
}
impl Shared {
    fn err(&mut self, c: &str, m: String) {
        if self.errs.len() < 4 {
            self.errs.push((c.into(), m));
        }
    }
    fn probe(&mut self, k: &'static str) {
        *self.probes.entry(k).or_default() += 1;
    }
}

/// judge one snapshot taken by a refresh that was invoked at `inv` and returned at `ret`
fn judge_snapshot(g: &mut Shared, snap: &[(usize, Rec)], inv: u64, ret: u64, clock: &[u32; 8], what: &str) {
    let mut seen = Vec::new();
    for (idx, r) in snap {
        if !rec_ok(r) {
            g.err("torn", format!("{what}: entry at index {idx} is a mixture of writes: {:x?}", r));
            continue;
        }
        let v = r[0];
        seen.push(v);
        match g.life.get(&v).cloned() {
            None => g.err("invented", format!("{what}: entry {v} at index {idx} was never added")),
            Some((ai, _ar, _ri, rr, aclk)) => {
                if ai > ret {
                    g.err("invented", format!("{what}: entry {v} seen before its add was invoked"));
                }
                if let Some(rr) = rr {
                    if rr < inv {
                        g.err("ghost", format!("{what}: contains entry {v} (index {idx}) whose removal completed before the refresh began"));
                    }
                }
                if !crate::kit::lin::clock_le(&aclk, clock) {
                    if g.beyond.len() < 2 {
                        g.beyond.push(("no-happens-before".into(), format!("{what}: entry {v} observed without a happens-before edge from its add")));
                    }
                }
            }
        }
    }
    let mut dup = seen.clone();
    dup.sort();
    dup.dedup();
    if dup.len() != seen.len() {
        g.err("duplicate", format!("{what}: an entry appears twice: {seen:?}"));
    }
    // completeness: adds that completed before the refresh began and whose removal was not even
    // invoked before it returned must be visible
    let missing: Vec<u64> = g
        .life
        .iter()
        .filter(|(_, l)| l.1.map(|ar| ar < inv).unwrap_or(false) && l.2.map(|ri| ri > ret).unwrap_or(true))
        .map(|(v, _)| *v)
        .filter(|v| !seen.contains(v))
        .collect();
    if !missing.is_empty() {
        g.err("missed", format!("{what}: entries {missing:?} were added before the refresh began and not removed, but are not in the view {seen:?}"));
    }
}

fn snapshot_of(st: &ContainerState<Rec>, cap: usize) -> Vec<(usize, Rec)> {
    let mut v = Vec::new();
    for i in 0..cap {
        if let Some(r) = st.get(i) {
            v.push((i, *r));
        }
    }
    v
}

/// give every data slot a fixed content before the run (slots start uninitialised; whether a plain
/// write is detected by write splitting must not depend on heap garbage)
fn scrub<const CAP: usize>(c: &FixedSizeContainer<Rec, CAP>) {
    let mut hs = Vec::new();
    for _ in 0..CAP {
        if let Ok((_, h)) = c.add([0xA5A5_A5A5_A5A5_A5A5u64; 4], OwnerId::new(50).unwrap()) {
            hs.push(h);
        }
    }
    for h in hs {
        let _ = unsafe { c.remove(h, ReleaseMode::Default) };
    }
}

fn body<const CAP: usize>(c: Arc<FixedSizeContainer<Rec, CAP>>, plan: Plan, sh: Arc<Mutex<Shared>>) {
    sim::arena(Arc::as_ptr(&c) as *const u8, core::mem::size_of::<FixedSizeContainer<Rec, CAP>>());
    // entries of a dead owner, present from the start
    for k in 0..plan.p("ghost") {
        let v = 900 + k as u64;
        let (st, clk) = sim::mark();
        if c.add(rec(v), OwnerId::new(GHOST_OWNER).unwrap()).is_ok() {
            let (st2, _) = sim::mark();
            sh.lock().unwrap().life.insert(v, (st, Some(st2), None, None, clk));
        }
    }
    let nwriters = plan.threads.len() - 1;
    let mut hs = Vec::new();
    for w in 0..nwriters {
        let (c, sh, ops) = (c.clone(), sh.clone(), plan.threads[w + 1].clone());
        hs.push(sim::spawn(&format!("W{w}"), move || {
            let owner = OwnerId::new(w as u64 + 1).unwrap();
            let mut mine: Vec<(u64, ContainerHandle)> = Vec::new();
            for o in ops.iter() {
                match o.c.as_str() {
                    "add" => {
                        let v = o.arg(0) as u64;
                        let (st, clk) = sim::mark();
                        sh.lock().unwrap().life.insert(v, (st, None, None, None, clk));
                        match c.add(rec(v), owner) {
                            Ok((_, h)) => {
                                let (st2, _) = sim::mark();
                                sh.lock().unwrap().life.get_mut(&v).unwrap().1 = Some(st2);
                                mine.push((v, h));
                            }
                            Err(_) => {
                                let mut g = sh.lock().unwrap();
                                g.life.remove(&v);
                                g.probe("add_saw_full_container");
                            }
                        }
                    }
                    "rem" => {
                        if mine.is_empty() {
                            continue;
                        }
                        let (v, h) = mine.remove(o.arg(0) as usize % mine.len());
                        let (st, _) = sim::mark();
                        sh.lock().unwrap().life.get_mut(&v).unwrap().2 = Some(st);
                        let r = unsafe { c.remove(h, ReleaseMode::Default) };
                        let (st2, _) = sim::mark();
                        let mut g = sh.lock().unwrap();
                        g.life.get_mut(&v).unwrap().3 = Some(st2);
                        if r.is_err() {
                            g.err("remove", format!("remove of the own entry {v} was refused"));
                        }
                    }
                    "rec" => {
                        // recover the dead owner's entries; every entry accepted by the predicate counts as
                        // "removal invoked now", and as completed when recover returns
                        let (st, _) = sim::mark();
                        {
                            // any still registered entry of the dead owner may be removed from now on
                            let mut g = sh.lock().unwrap();
                            let ghosts: Vec<u64> = g.life.iter().filter(|(v, l)| **v >= 900 && l.3.is_none()).map(|(v, _)| *v).collect();
                            for v in ghosts {
                                let l = g.life.get_mut(&v).unwrap();
                                if l.2.is_none() {
                                    l.2 = Some(st);
                                }
                            }
                            g.rec_inflight += 1;
                        }
                        let mut taken: Vec<u64> = Vec::new();
                        let mut bad: Vec<Rec> = Vec::new();
                        unsafe {
                            c.recover(
                                OwnerId::new(GHOST_OWNER).unwrap(),
                                |r: Rec| {
                                    if !rec_ok(&r) {
                                        bad.push(r);
                                    } else {
                                        taken.push(r[0]);
                                    }
                                    true
                                },
                                ReleaseMode::Default,
                            )
                        };
                        let (st2, _) = sim::mark();
                        let mut g = sh.lock().unwrap();
                        for r in bad {
                            g.err("torn", format!("recover handed a torn entry to its predicate: {:x?}", r));
                        }
                        for v in taken.iter() {
                            // the predicate is only a filter (it may even be shown an entry of a live owner
                            // that re-used the slot; the release then fails): just check it is a real entry
                            if !g.life.contains_key(v) {
                                let m_ = format!("recover saw entry {v} which was never added");
                                g.err("invented", m_);
                            }
                        }
                        // the dead owner's entries only ever disappear. A recover call that returns has seen
                        // every one of them removed or being removed by a concurrent call; so at a moment when
                        // a call has returned and none is in flight all of them are gone for good.
                        g.rec_inflight -= 1;
                        if g.rec_inflight == 0 {
                            let ghosts: Vec<u64> = g.life.keys().filter(|v| **v >= 900).cloned().collect();
                            for v in ghosts {
                                g.probe("recovered_entry");
                                let l = g.life.get_mut(&v).unwrap();
                                l.3 = Some(l.3.map(|x| x.min(st2)).unwrap_or(st2));
                            }
                        }
                    }
                    _ => {}
                }
            }
            // keep remaining handles alive (entries stay registered)
            std::mem::forget(mine);
        }));
    }
    let rh = {
        let (c, sh, ops) = (c.clone(), sh.clone(), plan.threads[0].clone());
        sim::spawn("R", move || {
            let (i0, _) = sim::mark();
            let mut st = c.get_state();
            let (r0, clk) = sim::mark();
            {
                let mut g = sh.lock().unwrap();
                g.refreshes += 1;
                judge_snapshot(&mut g, &snapshot_of(&st, CAP), i0, r0, &clk, "initial view");
            }
            for _ in ops.iter() {
                let (inv, _) = sim::mark();
                let changed = unsafe { c.update_state(&mut st) };
                let (ret, clk) = sim::mark();
                let mut g = sh.lock().unwrap();
                g.refreshes += 1;
                if changed {
                    g.probe("refresh_saw_change");
                }
                judge_snapshot(&mut g, &snapshot_of(&st, CAP), inv, ret, &clk, if changed { "refresh" } else { "refresh reporting 'nothing changed'" });
            }
            drop(st);
        })
    };
    for h in hs {
        let _ = h.join();
    }
    let _ = rh.join();
    // quiescence: a fresh view equals the registered set exactly, a second refresh reports no change
    let (inv, _) = sim::mark();
    let mut st = c.get_state();
    let (ret, clk) = sim::mark();
    let snap = snapshot_of(&st, CAP);
    let mut g = sh.lock().unwrap();
    judge_snapshot(&mut g, &snap, inv, ret, &clk, "view at quiescence");
    let mut registered: Vec<u64> = g.life.iter().filter(|(_, l)| l.1.is_some() && l.2.is_none()).map(|(v, _)| *v).collect();
    registered.sort();
    let mut seen: Vec<u64> = snap.iter().map(|(_, r)| r[0]).collect();
    seen.sort();
    if seen != registered && g.errs.is_empty() {
        g.err("inexact", format!("after all changes stopped the view is {seen:?} but the registered set is {registered:?}"));
    }
    drop(g);
    if unsafe { c.update_state(&mut st) } {
        sh.lock().unwrap().err("spurious-change", "a refresh after quiescence reported a change although nothing changed".into());
    }
}

pub struct ContainerHarness;

impl Harness for ContainerHarness {
    fn name(&self) -> &'static str {
        "c10.container"
    }
    fn property(&self) -> &'static str {
        "C10"
    }
    fn modes(&self) -> Vec<(&'static str, u32, bool)> {
        // C10 quantifies over interleavings: SC and SC+write-splitting decide, weak atomics are informational
        vec![("sc", 4, true), ("sc+p1", 5, true), ("weak", 1, false)]
    }
    fn quick_runs(&self) -> u64 {
        60_000
    }
    fn components(&self) -> Value {
        json!({"real": ["iceoryx2-bb-lock-free mpmc::container (add/remove/recover/update_state)", "mpmc::robust_unique_index_set"], "stub": ["thread scheduler", "preemption inside plain record copies = write splitting"]})
    }
    fn generate(&self, r: &mut Rng, mode: &str) -> (Plan, CfgSer) {
        let cap = r.range(1, 3);
        let nw = r.range(1, 2);
        let ghost = if r.chance(0.3) { r.range(1, cap) } else { 0 };
        let mut threads = Vec::new();
        let mut reader = Vec::new();
        for _ in 0..r.range(1, 5) {
            reader.push(Op::new("upd", &[]));
        }
        threads.push(reader);
        let mut next_v = 1;
        for w in 0..nw {
            let mut ops = Vec::new();
            let mut held = 0;
            for _ in 0..r.range(1, 6) {
                if held > 0 && r.chance(0.45) {
                    ops.push(Op::new("rem", &[r.range(0, 2)]));
                    held -= 1;
                } else {
                    ops.push(Op::new("add", &[next_v]));
                    next_v += 1;
                    held += 1;
                }
            }
            if ghost > 0 && (w == 0 || r.chance(0.4)) {
                let pos = r.range(0, ops.len() as i64) as usize;
                ops.insert(pos, Op::new("rec", &[]));
            }
            threads.push(ops);
        }
        let mut params = BTreeMap::new();
        params.insert("cap".into(), cap);
        params.insert("ghost".into(), ghost);
        let plan = Plan { harness: self.name().into(), mode: mode.into(), params, threads };
        let mut cfg = CfgSer::base();
        cfg.step_cap = 8000;
        cfg.draw_strategy(r, 200);
        if mode == "weak" {
            cfg.weak = true;
            cfg.stale_prob = 0.3;
        }
        if mode == "sc+p1" {
            cfg.post_yield_prob = 0.15;
            cfg.p1 = true;
            cfg.split_prob = 0.5;
        }
        (plan, cfg)
    }
    fn execute(&self, plan: &Plan, cfg: &CfgSer, dec: Decisions) -> RunResult {
        let sh = Arc::new(Mutex::new(Shared::default()));
        let sh2 = sh.clone();
        let p = plan.clone();
        let report = match plan.p("cap") {
            1 => {
                let c = Arc::new(FixedSizeContainer::<Rec, 1>::new());
                scrub(&*c);
                sim_run(cfg.to_cfg(), dec, move || body::<1>(c, p, sh2))
            }
            2 => {
                let c = Arc::new(FixedSizeContainer::<Rec, 2>::new());
                scrub(&*c);
                sim_run(cfg.to_cfg(), dec, move || body::<2>(c, p, sh2))
            }
            _ => {
                let c = Arc::new(FixedSizeContainer::<Rec, 3>::new());
                scrub(&*c);
                sim_run(cfg.to_cfg(), dec, move || body::<3>(c, p, sh2))
            }
        };
        let g = sh.lock().unwrap();
        let mut violation = None;
        let mut inconclusive = false;
        if let Some((c, m)) = g.errs.first() {
            violation = viol(c, m.clone());
        }
        if violation.is_none() {
            match &report.outcome {
                Outcome::Ok => {}
                Outcome::StepCap => inconclusive = true,
                Outcome::Deadlock { blocked } => violation = viol("deadlock", format!("threads {blocked:?} blocked for ever")),
                Outcome::Panic { thread, msg } => violation = viol("panic", format!("thread {thread} panicked: {msg}")),
            }
        }
        let beyond = g.beyond.first().map(|(c, m)| Violation { class: c.clone(), msg: m.clone() });
        let mut probes: Vec<(&'static str, u64)> = g.probes.iter().map(|(k, v)| (*k, *v)).collect();
        probes.push(("refreshes", g.refreshes));
        RunResult { report, violation, beyond, probes, inconclusive }
    }
}
