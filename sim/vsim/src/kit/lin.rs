// Wing&Gong style linearizability check with memoisation (DESIGN.md §4.7), generalised to a
// precedence *partial order*: under SC the order is real time (global event stamps), under weak
// atomics it is happens-before (vector clocks) — a stale but C11-legal observation by an
// operation that is not ordered after the update is then not reported.
use std::collections::HashSet;
use std::hash::Hash;

pub trait Spec {
    type S: Clone + Eq + Hash;
    type O;
    fn init(&self) -> Self::S;
    /// successor states if `op` (including its observed result) is legal in `s` (empty = illegal)
    fn step(&self, s: &Self::S, op: &Self::O) -> Vec<Self::S>;
}

#[derive(Debug, PartialEq)]
pub enum Lin {
    Ok,
    Violation,
    Inconclusive,
}

/// `completed[i]` false = the operation never returned (thread killed): it may or may not take effect.
/// `prec(a, b)` = a must be linearised before b.
pub fn check<SP: Spec>(spec: &SP, ops: &[SP::O], completed: &[bool], prec: &dyn Fn(usize, usize) -> bool, budget: usize) -> Lin {
    let n = ops.len();
    assert!(n <= 63);
    let must: u64 = (0..n).filter(|&i| completed[i]).fold(0, |m, i| m | (1 << i));
    // precedence matrix as bit masks: before[i] = set of ops that must precede i
    let mut before = vec![0u64; n];
    for i in 0..n {
        for j in 0..n {
            if i != j && prec(j, i) {
                before[i] |= 1 << j;
            }
        }
    }
    let mut seen: HashSet<(u64, SP::S)> = HashSet::new();
    let mut stack: Vec<(u64, SP::S)> = vec![(0, spec.init())];
    let mut nodes = 0usize;
    while let Some((done, st)) = stack.pop() {
        if done & must == must {
            return Lin::Ok;
        }
        nodes += 1;
        if nodes > budget {
            return Lin::Inconclusive;
        }
        for i in 0..n {
            if done & (1 << i) != 0 || before[i] & !done != 0 {
                continue;
            }
            for ns in spec.step(&st, &ops[i]) {
                let key = (done | (1 << i), ns);
                if seen.insert(key.clone()) {
                    stack.push(key);
                }
            }
        }
    }
    Lin::Violation
}

/// invocation / return marks of one operation
#[derive(Clone, Copy, Debug)]
pub struct Mark {
    pub stamp: u64,
    pub clock: [u32; 8],
}
pub fn clock_le(a: &[u32; 8], b: &[u32; 8]) -> bool {
    (0..8).all(|i| a[i] <= b[i])
}
