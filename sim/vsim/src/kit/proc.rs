// E-proc controller (DESIGN.md §4.5): real child processes, stepped at every yield point over a
// socket pair; the controller owns the interleaving, the clock and the kill switch.
use super::{Op, hash_str};
use iceoryx2_pal_concurrency_sync::sim::{self, Dev, K_CHOOSE, K_KILL, K_SCHED, rng::Rng};
use std::collections::HashMap;
use std::io::{BufRead, BufReader, Write};
use std::os::unix::io::{FromRawFd, RawFd};
use std::os::unix::net::UnixStream;

pub struct Role {
    pub name: String,
    pub script: Vec<Op>,
    pub killable: bool,
}

#[derive(Clone, Debug)]
pub struct Ev {
    pub child: usize,
    pub kind: String,
    pub arg: i64,
    pub detail: String,
    pub now: u64,
}

#[derive(Clone, Debug, PartialEq)]
pub enum ProcOutcome {
    Ok,
    Hang { child: usize },
    ChildDied { child: usize, status: i32 },
    StepCap,
}

pub struct ProcRun {
    pub events: Vec<Ev>,
    /// (child, text, index of the event that was current when the observation arrived)
    pub obs: Vec<(usize, String, usize)>,
    pub killed: Vec<(usize, usize, String)>, // (child, its yield number, kind of the yield it died at)
    pub outcome: ProcOutcome,
    pub deviations: Vec<Dev>,
    pub decisions: u64,
    pub switches: u64,
    pub now_ns: u64,
    pub fingerprint: u64,
    pub yields_per_child: Vec<u64>,
    pub exit_status: Vec<Option<i32>>,
}

pub struct Decider {
    seeded: bool,
    rng: Rng,
    replay: HashMap<u64, Dev>,
    next: u64,
    pub devs: Vec<Dev>,
    pub sticky: f64,
    /// per killable child: kill at its n-th yield (seeded mode)
    pub kill_at: HashMap<usize, u64>,
}
impl Decider {
    pub fn seeded(seed: u64) -> Self {
        Decider { seeded: true, rng: Rng::new(seed), replay: HashMap::new(), next: 0, devs: vec![], sticky: 0.7, kill_at: HashMap::new() }
    }
    pub fn replay(devs: &[Dev]) -> Self {
        Decider { seeded: false, rng: Rng::new(0), replay: devs.iter().map(|d| (d.idx, *d)).collect(), next: 0, devs: vec![], sticky: 0.0, kill_at: HashMap::new() }
    }
    pub fn rng(&mut self) -> &mut Rng {
        &mut self.rng
    }
    pub fn is_seeded(&self) -> bool {
        self.seeded
    }
    fn decide(&mut self, kind: u8, gen_choice: impl FnOnce(&mut Rng) -> u32) -> u32 {
        let idx = self.next;
        self.next += 1;
        if self.seeded {
            let c = gen_choice(&mut self.rng);
            if c != 0 {
                self.devs.push(Dev { idx, kind, choice: c });
            }
            c
        } else {
            match self.replay.get(&idx) {
                Some(d) if d.kind == kind => {
                    self.devs.push(*d);
                    d.choice
                }
                _ => 0,
            }
        }
    }
    /// harness level decision (e.g. which errno to inject): 0 default, else 1..=n
    pub fn choose(&mut self, n: u32, prob: f64) -> u32 {
        self.decide(K_CHOOSE, |r| if r.f64() < prob { 1 + r.below(n as u64) as u32 } else { 0 }).min(n)
    }
}

struct Child {
    pid: i32,
    w: UnixStream,
    r: BufReader<UnixStream>,
    /// pending request of the child: None = running/finished
    pending: Option<Ev>,
    sleeping_until: Option<u64>,
    done: bool,
    dead: bool,
    yields: u64,
    status: Option<i32>,
}

fn read_msg(c: &mut Child, child_idx: usize, obs: &mut Vec<(usize, String, usize)>, evidx: usize, now: u64, timeout_ms: i32) -> Result<Option<Ev>, ()> {
    // returns Ok(Some(ev)) for a yield/sleep, Ok(None) when the child is done, Err on hang/death
    loop {
        // wait for readability with a real-time limit (a child stuck in the kernel is a hang)
        if c.r.buffer().is_empty() {
            use std::os::unix::io::AsRawFd;
            let mut pfd = libc::pollfd { fd: c.r.get_ref().as_raw_fd(), events: libc::POLLIN, revents: 0 };
            let n = unsafe { libc::poll(&mut pfd, 1, timeout_ms) };
            if n <= 0 {
                return Err(());
            }
        }
        let mut line = String::new();
        match c.r.read_line(&mut line) {
            Ok(0) | Err(_) => return Err(()),
            Ok(_) => {}
        }
        let line = line.trim_end();
        if let Some(rest) = line.strip_prefix("O ") {
            obs.push((child_idx, rest.to_string(), evidx));
            continue;
        }
        if let Some(rest) = line.strip_prefix("D ") {
            c.done = true;
            c.status = rest.trim().parse().ok();
            return Ok(None);
        }
        if let Some(rest) = line.strip_prefix("S ") {
            let ns: u64 = rest.trim().parse().unwrap_or(0);
            return Ok(Some(Ev { child: child_idx, kind: "sleep".into(), arg: ns as i64, detail: String::new(), now }));
        }
        if let Some(rest) = line.strip_prefix("Y ") {
            let mut it = rest.splitn(3, ' ');
            let kind = it.next().unwrap_or("").to_string();
            let arg = it.next().and_then(|x| x.parse().ok()).unwrap_or(0);
            let detail = it.next().unwrap_or("").to_string();
            return Ok(Some(Ev { child: child_idx, kind, arg, detail, now }));
        }
    }
}

/// Run the roles as child processes. `child_main(role index, script)` runs in the child after it has been
/// switched to remote mode. `normalise` strips run specific strings (pids, roots) from details before they
/// enter the fingerprint.
pub fn run_proc(roles: &[Role], child_main: &dyn Fn(usize, &[Op]), d: &mut Decider, step_cap: u64, normalise: &dyn Fn(&str) -> String) -> ProcRun {
    let mut children: Vec<Child> = Vec::new();
    for (i, _role) in roles.iter().enumerate() {
        let mut sv = [0 as RawFd; 2];
        if unsafe { libc::socketpair(libc::AF_UNIX, libc::SOCK_STREAM, 0, sv.as_mut_ptr()) } != 0 {
            panic!("socketpair failed");
        }
        let pid = unsafe { libc::fork() };
        if pid == 0 {
            unsafe { libc::close(sv[0]) };
            for c in children.iter() {
                use std::os::unix::io::AsRawFd;
                unsafe { libc::close(c.w.as_raw_fd()) };
            }
            sim::remote::init(sv[1], 5000 + i as u32);
            let _ = sim::remote::yield_point("start", 0, "");
            let r = std::panic::catch_unwind(std::panic::AssertUnwindSafe(|| child_main(i, &roles[i].script)));
            sim::remote::done(if r.is_ok() { 0 } else { 101 });
            unsafe { libc::_exit(if r.is_ok() { 0 } else { 101 }) };
        }
        unsafe { libc::close(sv[1]) };
        let s = unsafe { UnixStream::from_raw_fd(sv[0]) };
        let r = BufReader::new(s.try_clone().unwrap());
        children.push(Child { pid, w: s, r, pending: None, sleeping_until: None, done: false, dead: false, yields: 0, status: None });
    }
    let mut run = ProcRun { events: vec![], obs: vec![], killed: vec![], outcome: ProcOutcome::Ok, deviations: vec![], decisions: 0, switches: 0, now_ns: 1_000_000_000, fingerprint: 0xcbf29ce484222325, yields_per_child: vec![], exit_status: vec![] };
    let mut now: u64 = 1_000_000_000;
    // every child reports its "start" yield first
    for i in 0..children.len() {
        match read_msg(&mut children[i], i, &mut run.obs, 0, now, 20_000) {
            Ok(Some(ev)) => children[i].pending = Some(ev),
            Ok(None) => {}
            Err(()) => {
                run.outcome = ProcOutcome::Hang { child: i };
            }
        }
    }
    let mut last: usize = 0;
    let mut steps = 0u64;
    while run.outcome == ProcOutcome::Ok {
        // wake sleepers whose time has come
        for c in children.iter_mut() {
            if let Some(t) = c.sleeping_until {
                if t <= now {
                    c.sleeping_until = None;
                }
            }
        }
        let runnable: Vec<usize> = (0..children.len()).filter(|&i| !children[i].done && !children[i].dead && children[i].pending.is_some() && children[i].sleeping_until.is_none()).collect();
        if runnable.is_empty() {
            // advance virtual time to the next wake-up, or finish
            let next = children.iter().filter(|c| !c.done && !c.dead).filter_map(|c| c.sleeping_until).min();
            match next {
                Some(t) => {
                    now = now.max(t);
                    continue;
                }
                None => break,
            }
        }
        steps += 1;
        if steps > step_cap {
            run.outcome = ProcOutcome::StepCap;
            break;
        }
        // who runs next
        let dflt = if runnable.contains(&last) { last } else { runnable[0] };
        let next = if runnable.len() > 1 {
            let sticky = d.sticky;
            let c = d.decide(K_SCHED, |r| {
                let pick = if r.f64() < sticky { dflt } else { runnable[r.below(runnable.len() as u64) as usize] };
                if pick == dflt { 0 } else { pick as u32 + 1 }
            });
            if c == 0 || !runnable.contains(&((c - 1) as usize)) { dflt } else { (c - 1) as usize }
        } else {
            dflt
        };
        if next != last {
            run.switches += 1;
        }
        last = next;
        let ev = children[next].pending.take().unwrap();
        children[next].yields += 1;
        let ynum = children[next].yields;
        // kill here?
        let mut kill = false;
        if roles[next].killable && run.killed.iter().all(|k| k.0 != next) {
            let at = d.kill_at.get(&next).cloned();
            let c = d.decide(K_KILL, |_| if at == Some(ynum) { 1 } else { 0 });
            kill = c != 0;
        }
        run.fingerprint = super::hash_str(&format!("{:x}|{}|{}|{}|{}", run.fingerprint, next, ev.kind, normalise(&ev.detail), if kill { "K" } else { "" }));
        let mut ev2 = ev.clone();
        ev2.now = now;
        run.events.push(ev2);
        if kill {
            unsafe { libc::kill(children[next].pid, libc::SIGKILL) };
            let mut st = 0;
            unsafe { libc::waitpid(children[next].pid, &mut st, 0) };
            children[next].dead = true;
            run.killed.push((next, ynum as usize, ev.kind.clone()));
            continue;
        }
        if ev.kind == "sleep" {
            children[next].sleeping_until = Some(now + ev.arg as u64);
        }
        // let it go on until its next yield
        let reply = format!("G {}\n", if ev.kind == "sleep" { now + ev.arg as u64 } else { now });
        if children[next].w.write_all(reply.as_bytes()).is_err() {
            run.outcome = ProcOutcome::ChildDied { child: next, status: -1 };
            break;
        }
        let evidx = run.events.len();
        match read_msg(&mut children[next], next, &mut run.obs, evidx, now, 20_000) {
            Ok(Some(ev)) => children[next].pending = Some(ev),
            Ok(None) => {}
            Err(()) => {
                // died or hangs?
                let mut st = 0;
                let r = unsafe { libc::waitpid(children[next].pid, &mut st, libc::WNOHANG) };
                if r == children[next].pid {
                    children[next].dead = true;
                    run.outcome = ProcOutcome::ChildDied { child: next, status: if libc::WIFSIGNALED(st) { -libc::WTERMSIG(st) } else { libc::WEXITSTATUS(st) } };
                } else {
                    run.outcome = ProcOutcome::Hang { child: next };
                }
            }
        }
    }
    // reap
    for c in children.iter_mut() {
        if !c.dead {
            if !c.done {
                unsafe { libc::kill(c.pid, libc::SIGKILL) };
            }
            let mut st = 0;
            unsafe { libc::waitpid(c.pid, &mut st, 0) };
        }
    }
    run.now_ns = now;
    run.deviations = d.devs.clone();
    run.decisions = d.next;
    run.yields_per_child = children.iter().map(|c| c.yields).collect();
    run.exit_status = children.iter().map(|c| c.status).collect();
    let _ = hash_str;
    run
}
