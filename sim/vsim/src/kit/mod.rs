// Harness kit: plans, harness trait, worker/driver processes, minimiser, replay files, evidence.
use iceoryx2_pal_concurrency_sync::sim::{self, Decisions, Dev, Outcome, Report, RunCfg, Strategy, rng::{self, Rng}};
use serde::{Deserialize, Serialize};
use serde_json::{Value, json};
use std::collections::{BTreeMap, BTreeSet};
use std::io::{BufRead, Write};

pub mod lin;
pub mod proc;

/// A page shared between a worker and its forked run: the run leaves a short note about what it is doing
/// (and a SIGSEGV reporter the faulting address); if the run dies without a result, the note becomes part
/// of the `process-crash` message.
pub mod crashnote {
    use std::sync::atomic::{AtomicUsize, Ordering};
    static PAGE: AtomicUsize = AtomicUsize::new(0);
    const NOTE_LEN: usize = 1000;
    pub fn init() {
        if PAGE.load(Ordering::Relaxed) == 0 {
            let p = unsafe { libc::mmap(core::ptr::null_mut(), 4096, libc::PROT_READ | libc::PROT_WRITE, libc::MAP_SHARED | libc::MAP_ANONYMOUS, -1, 0) };
            if p != libc::MAP_FAILED {
                PAGE.store(p as usize, Ordering::Relaxed);
            }
        }
        clear();
    }
    pub fn clear() {
        let p = PAGE.load(Ordering::Relaxed);
        if p != 0 {
            unsafe { core::ptr::write_bytes(p as *mut u8, 0, 4096) };
        }
    }
    pub fn set(s: &str) {
        let p = PAGE.load(Ordering::Relaxed);
        if p != 0 {
            let n = s.len().min(NOTE_LEN);
            unsafe {
                core::ptr::copy_nonoverlapping(s.as_ptr(), p as *mut u8, n);
                *(p as *mut u8).add(n) = 0;
            }
        }
    }
    pub fn get() -> String {
        let p = PAGE.load(Ordering::Relaxed);
        if p == 0 {
            return String::new();
        }
        let bytes = unsafe { core::slice::from_raw_parts(p as *const u8, NOTE_LEN) };
        let n = bytes.iter().position(|b| *b == 0).unwrap_or(NOTE_LEN);
        let mut s = String::from_utf8_lossy(&bytes[..n]).to_string();
        let addr = unsafe { *((p + 2048) as *const usize) };
        let has = unsafe { *((p + 2056) as *const usize) };
        if has != 0 {
            s.push_str(&format!(" [fault address {addr:#x}]"));
        }
        s
    }
    extern "C" fn on_segv(_sig: i32, info: *mut libc::siginfo_t, _ctx: *mut libc::c_void) {
        let p = PAGE.load(Ordering::Relaxed);
        if p != 0 {
            unsafe {
                *((p + 2048) as *mut usize) = (*info).si_addr() as usize;
                *((p + 2056) as *mut usize) = 1;
            }
        }
        unsafe {
            libc::signal(libc::SIGSEGV, libc::SIG_DFL);
            libc::signal(libc::SIGBUS, libc::SIG_DFL);
        }
        // returning re-executes the faulting instruction with the default disposition: the process dies
    }
    /// called inside the forked run
    pub fn install_segv_reporter() {
        unsafe {
            let mut sa: libc::sigaction = core::mem::zeroed();
            sa.sa_sigaction = on_segv as usize;
            sa.sa_flags = libc::SA_SIGINFO;
            libc::sigaction(libc::SIGSEGV, &sa, core::ptr::null_mut());
            libc::sigaction(libc::SIGBUS, &sa, core::ptr::null_mut());
        }
    }
}

// ---------------------------------------------------------------------------------------
// Address stability: the simulator identifies memory locations by address. If the heap handed a freed
// block to a new object during a run, whether two objects share an identity would depend on the heap's
// history (timing of thread exits in earlier runs, ...). While a simulation runs, frees are therefore
// quarantined and only carried out after the run.
pub struct QuarantineAlloc;
unsafe impl std::alloc::GlobalAlloc for QuarantineAlloc {
    unsafe fn alloc(&self, layout: std::alloc::Layout) -> *mut u8 {
        unsafe { std::alloc::System.alloc(layout) }
    }
    unsafe fn alloc_zeroed(&self, layout: std::alloc::Layout) -> *mut u8 {
        unsafe { std::alloc::System.alloc_zeroed(layout) }
    }
    unsafe fn dealloc(&self, ptr: *mut u8, layout: std::alloc::Layout) {
        if !sim::quarantine::push(ptr as usize, layout.size(), layout.align()) {
            unsafe { std::alloc::System.dealloc(ptr, layout) }
        }
    }
}

/// run one simulation with quarantined frees (see sim::quarantine)
pub fn sim_run<F: FnOnce() + Send + 'static>(cfg: RunCfg, dec: Decisions, body: F) -> Report {
    use std::alloc::GlobalAlloc;
    sim::quarantine::set(true);
    let r = sim::run(cfg, dec, body);
    sim::quarantine::set(false);
    sim::quarantine::flush(|p, s, a| unsafe {
        if a == 0 {
            libc::free(p as *mut libc::c_void);
        } else {
            std::alloc::System.dealloc(p as *mut u8, std::alloc::Layout::from_size_align_unchecked(s, a));
        }
    });
    r
}

// ---------------------------------------------------------------------------------------
// plans

#[derive(Clone, Debug, Serialize, Deserialize, PartialEq)]
pub struct Op {
    pub c: String,
    #[serde(default)]
    pub a: Vec<i64>,
}
impl Op {
    pub fn new(c: &str, a: &[i64]) -> Op {
        Op { c: c.to_string(), a: a.to_vec() }
    }
    pub fn arg(&self, i: usize) -> i64 {
        self.a.get(i).copied().unwrap_or(0)
    }
}

#[derive(Clone, Debug, Serialize, Deserialize, PartialEq)]
pub struct Plan {
    pub harness: String,
    pub mode: String,
    pub params: BTreeMap<String, i64>,
    pub threads: Vec<Vec<Op>>,
}
impl Plan {
    pub fn p(&self, k: &str) -> i64 {
        *self.params.get(k).unwrap_or(&0)
    }
    pub fn ops(&self) -> usize {
        self.threads.iter().map(|t| t.len()).sum()
    }
}

#[derive(Clone, Debug, Serialize, Deserialize, PartialEq)]
pub struct CfgSer {
    pub weak: bool,
    pub stale_prob: f64,
    pub cas_weak_fail_prob: f64,
    pub p1: bool,
    pub split_prob: f64,
    pub kill_prob: f64,
    pub max_kills: u32,
    #[serde(default)]
    pub post_yield_prob: f64,
    pub strategy: String,
    pub sticky: f64,
    pub pct_depth: u32,
    pub pct_len: u64,
    pub step_cap: u64,
    pub spin_limit: u32,
}
impl CfgSer {
    pub fn to_cfg(&self) -> RunCfg {
        RunCfg {
            weak: self.weak,
            stale_prob: self.stale_prob,
            cas_weak_fail_prob: self.cas_weak_fail_prob,
            p1: self.p1,
            split_prob: self.split_prob,
            kill_prob: self.kill_prob,
            max_kills: self.max_kills,
            post_yield_prob: self.post_yield_prob,
            strategy: if self.strategy == "pct" { Strategy::Pct { depth: self.pct_depth, est_len: self.pct_len } } else { Strategy::Random { sticky: self.sticky } },
            step_cap: self.step_cap,
            spin_limit: self.spin_limit,
            trace: std::env::var("VSIM_TRACE").is_ok(),
        }
    }
    pub fn base() -> CfgSer {
        CfgSer { weak: false, stale_prob: 0.0, cas_weak_fail_prob: 0.0, p1: false, split_prob: 0.0, kill_prob: 0.0, max_kills: 0, post_yield_prob: 0.0, strategy: "random".into(), sticky: 0.5, pct_depth: 0, pct_len: 0, step_cap: 20_000, spin_limit: 48 }
    }
    /// swarm style: draw the scheduling strategy for one run
    pub fn draw_strategy(&mut self, r: &mut Rng, est_len: u64) {
        match r.below(6) {
            0 => { self.strategy = "random".into(); self.sticky = 0.0; }
            1 => { self.strategy = "random".into(); self.sticky = 0.5; }
            2 => { self.strategy = "random".into(); self.sticky = 0.9; }
            3 => { self.strategy = "random".into(); self.sticky = 0.97; }
            _ => { self.strategy = "pct".into(); self.pct_depth = 1 + r.below(4) as u32; self.pct_len = est_len; }
        }
    }
}

#[derive(Clone, Debug, Serialize, Deserialize, PartialEq)]
pub struct DevSer(pub u64, pub u8, pub u32);

#[derive(Clone, Debug, Serialize, Deserialize)]
pub struct Violation {
    pub class: String,
    pub msg: String,
}

#[derive(Clone, Debug, Serialize, Deserialize)]
pub struct ReplayFile {
    pub property: String,
    pub harness: String,
    pub verif_seed: u64,
    pub run_index: u64,
    pub run_seed: u64,
    pub cfg: CfgSer,
    pub plan: Plan,
    pub deviations: Vec<DevSer>,
    pub violation: Violation,
    pub fingerprint: String,
    #[serde(default)]
    pub minimised: bool,
    #[serde(default)]
    pub log_tail: Vec<String>,
    #[serde(default)]
    pub note: String,
}

pub struct RunResult {
    pub report: Report,
    pub violation: Option<Violation>,
    /// informational findings beyond the property's quantifier (never a VIOLATION)
    pub beyond: Option<Violation>,
    pub probes: Vec<(&'static str, u64)>,
    pub inconclusive: bool,
}

pub fn viol(class: &str, msg: String) -> Option<Violation> {
    Some(Violation { class: class.to_string(), msg })
}

pub trait Harness: Sync {
    fn name(&self) -> &'static str;
    fn property(&self) -> &'static str;
    /// memory-model / fault modes this harness runs in; (mode, weight, deciding)
    fn modes(&self) -> Vec<(&'static str, u32, bool)>;
    fn generate(&self, r: &mut Rng, mode: &str) -> (Plan, CfgSer);
    fn execute(&self, plan: &Plan, cfg: &CfgSer, dec: Decisions) -> RunResult;
    fn components(&self) -> Value;
    /// relative cost weight for distributing the run budget
    fn quick_runs(&self) -> u64;
    /// run every simulation in a forked child of the (warmed-up) worker: process-global state
    /// (id counters, lazily initialised statics, registries) is then identical at the start of each
    /// run, and a crash (SIGSEGV, abort) of the code under test is an observable outcome
    fn isolate(&self) -> bool {
        false
    }
    /// called once per process before the first (forked) run
    fn warm_up(&self) {}
}

#[derive(Serialize, Deserialize)]
struct RunOut {
    outcome: String,
    outcome_detail: String,
    outcome_thread: usize,
    fingerprint: u64,
    sched_sig: u64,
    counters: [u64; 10],
    deviations: Vec<DevSer>,
    log_tail: Vec<String>,
    violation: Option<Violation>,
    beyond: Option<Violation>,
    probes: Vec<(String, u64)>,
    inconclusive: bool,
}

fn intern(s: &str) -> &'static str {
    static TABLE: std::sync::Mutex<Vec<&'static str>> = std::sync::Mutex::new(Vec::new());
    let mut t = TABLE.lock().unwrap();
    if let Some(x) = t.iter().find(|x| **x == s) {
        return x;
    }
    let l: &'static str = Box::leak(s.to_string().into_boxed_str());
    t.push(l);
    l
}

fn to_out(r: &RunResult) -> RunOut {
    let (o, d, t) = match &r.report.outcome {
        Outcome::Ok => ("ok".to_string(), String::new(), 0),
        Outcome::StepCap => ("stepcap".to_string(), String::new(), 0),
        Outcome::Deadlock { blocked } => ("deadlock".to_string(), blocked.iter().map(|b| b.to_string()).collect::<Vec<_>>().join(","), 0),
        Outcome::Panic { thread, msg } => ("panic".to_string(), msg.clone(), *thread),
    };
    let rp = &r.report;
    RunOut {
        outcome: o,
        outcome_detail: d,
        outcome_thread: t,
        fingerprint: rp.fingerprint,
        sched_sig: rp.sched_sig,
        counters: [rp.steps, rp.switches, rp.stale_reads, rp.splits, rp.kills, rp.cas_spurious, rp.chooses, rp.decisions, rp.sim_time_ns, rp.threads as u64],
        deviations: devs_to_ser(&rp.deviations),
        log_tail: rp.log_tail.clone(),
        violation: r.violation.clone(),
        beyond: r.beyond.clone(),
        probes: r.probes.iter().map(|(k, v)| (k.to_string(), *v)).collect(),
        inconclusive: r.inconclusive,
    }
}

fn from_out(o: RunOut) -> RunResult {
    let outcome = match o.outcome.as_str() {
        "ok" => Outcome::Ok,
        "stepcap" => Outcome::StepCap,
        "deadlock" => Outcome::Deadlock { blocked: o.outcome_detail.split(',').filter_map(|x| x.parse().ok()).collect() },
        _ => Outcome::Panic { thread: o.outcome_thread, msg: o.outcome_detail.clone() },
    };
    let c = o.counters;
    RunResult {
        report: Report {
            outcome,
            fingerprint: o.fingerprint,
            sched_sig: o.sched_sig,
            steps: c[0],
            switches: c[1],
            stale_reads: c[2],
            splits: c[3],
            kills: c[4],
            cas_spurious: c[5],
            chooses: c[6],
            decisions: c[7],
            deviations: ser_to_devs(&o.deviations),
            sim_time_ns: c[8],
            threads: c[9] as usize,
            log_tail: o.log_tail,
        },
        violation: o.violation,
        beyond: o.beyond,
        probes: o.probes.iter().map(|(k, v)| (intern(k), *v)).collect(),
        inconclusive: o.inconclusive,
    }
}

fn crashed_result(what: String) -> RunResult {
    RunResult {
        // addresses in the message (crash notes) depend on where the kernel put the mappings: keep them out
        // of the fingerprint
        report: Report { outcome: Outcome::Panic { thread: 0, msg: what.clone() }, fingerprint: hash_str(&what.split("0x").map(|p| p.trim_start_matches(|c: char| c.is_ascii_hexdigit())).collect::<Vec<_>>().join("0x")), sched_sig: 0, steps: 0, switches: 0, stale_reads: 0, splits: 0, kills: 0, cas_spurious: 0, chooses: 1, decisions: 0, deviations: vec![], sim_time_ns: 0, threads: 0, log_tail: vec![] },
        violation: viol("process-crash", what),
        beyond: None,
        probes: vec![],
        inconclusive: false,
    }
}

/// Execute one run of `h`, in a forked child if the harness asks for isolation.
pub fn execute(h: &dyn Harness, plan: &Plan, cfg: &CfgSer, dec: Decisions) -> RunResult {
    if !h.isolate() {
        return h.execute(plan, cfg, dec);
    }
    static WARM: std::sync::Mutex<Vec<String>> = std::sync::Mutex::new(Vec::new());
    {
        let mut w = WARM.lock().unwrap();
        if !w.iter().any(|n| n == h.name()) {
            h.warm_up();
            w.push(h.name().to_string());
        }
    }
    crashnote::init();
    let mut fds = [0i32; 2];
    if unsafe { libc::pipe(fds.as_mut_ptr()) } != 0 {
        return crashed_result("pipe() failed".into());
    }
    let pid = unsafe { libc::fork() };
    if pid < 0 {
        return crashed_result("fork() failed".into());
    }
    if pid == 0 {
        // child
        unsafe { libc::close(fds[0]) };
        sim::quarantine::set_poison(true);
        let r = h.execute(plan, cfg, dec);
        let s = serde_json::to_vec(&to_out(&r)).unwrap_or_default();
        let mut off = 0;
        while off < s.len() {
            let n = unsafe { libc::write(fds[1], s[off..].as_ptr() as *const libc::c_void, s.len() - off) };
            if n <= 0 {
                break;
            }
            off += n as usize;
        }
        unsafe { libc::_exit(0) };
    }
    unsafe { libc::close(fds[1]) };
    let mut buf = Vec::new();
    let mut tmp = [0u8; 65536];
    loop {
        let n = unsafe { libc::read(fds[0], tmp.as_mut_ptr() as *mut libc::c_void, tmp.len()) };
        if n <= 0 {
            break;
        }
        buf.extend_from_slice(&tmp[..n as usize]);
    }
    unsafe { libc::close(fds[0]) };
    let mut status = 0i32;
    unsafe { libc::waitpid(pid, &mut status, 0) };
    match serde_json::from_slice::<RunOut>(&buf) {
        Ok(o) => from_out(o),
        Err(_) => {
            let mut what = if libc::WIFSIGNALED(status) { format!("the process running the scenario was killed by signal {}", libc::WTERMSIG(status)) } else { format!("the process running the scenario exited with status {} without a result", libc::WEXITSTATUS(status)) };
            let note = crashnote::get();
            if !note.is_empty() {
                what.push_str(&format!(" while: {note}"));
            }
            crashed_result(what)
        }
    }
}

pub fn devs_to_ser(d: &[Dev]) -> Vec<DevSer> {
    d.iter().map(|d| DevSer(d.idx, d.kind, d.choice)).collect()
}
pub fn ser_to_devs(d: &[DevSer]) -> Vec<Dev> {
    d.iter().map(|d| Dev { idx: d.0, kind: d.1, choice: d.2 }).collect()
}

pub fn hash_str(s: &str) -> u64 {
    let mut h = 0xcbf29ce484222325u64;
    for b in s.as_bytes() {
        h = (h ^ *b as u64).wrapping_mul(0x100000001b3);
    }
    h
}

pub fn run_seed(verif_seed: u64, harness: &str, index: u64) -> u64 {
    rng::mix(rng::mix(verif_seed, hash_str(harness)), index)
}

/// Deterministically derive (mode, plan, cfg) of run `index`.
pub fn derive_run(h: &dyn Harness, verif_seed: u64, index: u64, only_mode: Option<&str>) -> (u64, String, bool, Plan, CfgSer) {
    let rs = run_seed(verif_seed, h.name(), index);
    let mut r = Rng::new(rs);
    let modes = h.modes();
    let (mode, deciding) = match only_mode {
        Some(m) => (m.to_string(), modes.iter().find(|x| x.0 == m).map(|x| x.2).unwrap_or(true)),
        None => {
            let total: u32 = modes.iter().map(|m| m.1).sum();
            let mut k = r.below(total as u64) as u32;
            let mut sel = modes[0];
            for m in modes.iter() {
                if k < m.1 {
                    sel = *m;
                    break;
                }
                k -= m.1;
            }
            (sel.0.to_string(), sel.2)
        }
    };
    let (plan, cfg) = h.generate(&mut r, &mode);
    (rs, mode, deciding, plan, cfg)
}

// ---------------------------------------------------------------------------------------
// worker: runs a contiguous range of run indices, prints JSON lines

#[derive(Default, Serialize, Deserialize, Clone, Debug)]
pub struct Agg {
    pub runs: u64,
    pub steps: u64,
    pub switches: u64,
    pub stale_reads: u64,
    pub splits: u64,
    pub kills: u64,
    pub cas_spurious: u64,
    pub chooses: u64,
    pub decisions: u64,
    pub sim_time_ns: u64,
    pub nontrivial: u64,
    pub inconclusive: u64,
    pub stepcap: u64,
    pub deadlocks: u64,
    pub panics: u64,
    pub violations: u64,
    pub beyond: u64,
    pub by_mode: BTreeMap<String, u64>,
    pub probes: BTreeMap<String, u64>,
    pub fp_agg: u64,
    pub sigs: Vec<u64>,
    pub sampled_fps: Vec<(u64, u64)>,
    pub beyond_samples: Vec<Value>,
    pub samples: Vec<Value>,
}

impl Agg {
    pub fn merge(&mut self, o: &Agg) {
        self.runs += o.runs;
        self.steps += o.steps;
        self.switches += o.switches;
        self.stale_reads += o.stale_reads;
        self.splits += o.splits;
        self.kills += o.kills;
        self.cas_spurious += o.cas_spurious;
        self.chooses += o.chooses;
        self.decisions += o.decisions;
        self.sim_time_ns += o.sim_time_ns;
        self.nontrivial += o.nontrivial;
        self.inconclusive += o.inconclusive;
        self.stepcap += o.stepcap;
        self.deadlocks += o.deadlocks;
        self.panics += o.panics;
        self.violations += o.violations;
        self.beyond += o.beyond;
        for (k, v) in &o.by_mode {
            *self.by_mode.entry(k.clone()).or_default() += v;
        }
        for (k, v) in &o.probes {
            *self.probes.entry(k.clone()).or_default() += v;
        }
        self.fp_agg ^= o.fp_agg;
        self.sigs.extend_from_slice(&o.sigs);
        self.sampled_fps.extend_from_slice(&o.sampled_fps);
        for s in &o.beyond_samples {
            if self.beyond_samples.len() < 3 {
                self.beyond_samples.push(s.clone());
            }
        }
        for s in &o.samples {
            if self.samples.len() < 3 {
                self.samples.push(s.clone());
            }
        }
    }
}

pub const FP_SAMPLE_EVERY: u64 = 37;

pub fn plan_brief(plan: &Plan) -> Value {
    json!({"harness": plan.harness, "mode": plan.mode, "params": plan.params,
        "threads": plan.threads.iter().map(|t| t.iter().map(|o| if o.a.is_empty() { o.c.clone() } else { format!("{}{:?}", o.c, o.a) }).collect::<Vec<_>>()).collect::<Vec<_>>()})
}

pub fn make_replay(h: &dyn Harness, verif_seed: u64, index: u64, rs: u64, cfg: &CfgSer, plan: &Plan, res: &RunResult, v: &Violation) -> ReplayFile {
    ReplayFile {
        property: h.property().to_string(),
        harness: h.name().to_string(),
        verif_seed,
        run_index: index,
        run_seed: rs,
        cfg: cfg.clone(),
        plan: plan.clone(),
        deviations: devs_to_ser(&res.report.deviations),
        violation: v.clone(),
        fingerprint: format!("{:016x}", res.report.fingerprint),
        minimised: false,
        log_tail: res.report.log_tail.clone(),
        note: String::new(),
    }
}

pub fn worker(h: &dyn Harness, verif_seed: u64, from: u64, to: u64, only_mode: Option<&str>, max_viol: usize) {
    let mut agg = Agg::default();
    let out = std::io::stdout();
    let mut nviol: BTreeMap<String, usize> = BTreeMap::new();
    for index in from..to {
        let (rs, mode, deciding, plan, cfg) = derive_run(h, verif_seed, index, only_mode);
        let res = execute(h, &plan, &cfg, Decisions::Seeded(rs));
        let rep = &res.report;
        if std::env::var("VSIM_FPS").is_ok() {
            eprintln!("FP {index} {:016x} steps={}", rep.fingerprint, rep.steps);
        }
        if std::env::var("VSIM_TRACE").is_ok() || std::env::var("VSIM_DUMP").ok().and_then(|v| v.parse::<u64>().ok()) == Some(index) {
            eprintln!("=== run {index}");
            for l in &rep.log_tail {
                eprintln!("{l}");
            }
        }
        agg.runs += 1;
        agg.steps += rep.steps;
        agg.switches += rep.switches;
        agg.stale_reads += rep.stale_reads;
        agg.splits += rep.splits;
        agg.kills += rep.kills;
        agg.cas_spurious += rep.cas_spurious;
        agg.chooses += rep.chooses;
        agg.decisions += rep.decisions;
        agg.sim_time_ns += rep.sim_time_ns;
        *agg.by_mode.entry(mode.clone()).or_default() += 1;
        for (k, v) in &res.probes {
            if *v > 0 {
                *agg.probes.entry(k.to_string()).or_default() += v;
            }
        }
        match rep.outcome {
            Outcome::StepCap => agg.stepcap += 1,
            Outcome::Deadlock { .. } => agg.deadlocks += 1,
            Outcome::Panic { .. } => agg.panics += 1,
            Outcome::Ok => {}
        }
        if res.inconclusive {
            agg.inconclusive += 1;
        }
        let nontrivial = rep.switches > 0 || rep.stale_reads > 0 || rep.splits > 0 || rep.kills > 0 || rep.chooses > 0;
        if nontrivial {
            agg.nontrivial += 1;
            agg.sigs.push(rng::mix(rep.sched_sig, hash_str(&serde_json::to_string(&plan).unwrap())));
        }
        agg.fp_agg ^= rng::mix(rep.fingerprint, index);
        if index % FP_SAMPLE_EVERY == 0 {
            agg.sampled_fps.push((index, rep.fingerprint));
        }
        if agg.samples.len() < 2 && nontrivial && index % 7 == 3 {
            agg.samples.push(json!({"run_index": index, "run_seed": rs, "plan": plan_brief(&plan),
                "cfg": {"weak": cfg.weak, "p1": cfg.p1, "strategy": cfg.strategy, "sticky": cfg.sticky, "pct_depth": cfg.pct_depth, "stale_prob": cfg.stale_prob},
                "deviations": rep.deviations.iter().take(12).map(|d| format!("{}@{}={}", sim::kind_name(d.kind), d.idx, d.choice)).collect::<Vec<_>>(),
                "n_deviations": rep.deviations.len(), "steps": rep.steps, "switches": rep.switches, "outcome": format!("{:?}", rep.outcome)}));
        }
        if let Some(b) = &res.beyond {
            agg.beyond += 1;
            if agg.beyond_samples.len() < 3 {
                agg.beyond_samples.push(json!({"run_index": index, "mode": mode, "class": b.class, "msg": b.msg}));
            }
        }
        if let Some(v) = &res.violation {
            if deciding {
                agg.violations += 1;
                // up to max_viol replay candidates per violation class, so that a frequent (possibly known)
                // class cannot crowd out a rare one
                let n = nviol.entry(v.class.clone()).or_default();
                if *n < max_viol {
                    *n += 1;
                    let rf = make_replay(h, verif_seed, index, rs, &cfg, &plan, &res, v);
                    let mut o = out.lock();
                    let _ = writeln!(o, "V {}", serde_json::to_string(&rf).unwrap());
                }
            } else {
                agg.beyond += 1;
                if agg.beyond_samples.len() < 3 {
                    agg.beyond_samples.push(json!({"run_index": index, "mode": mode, "class": v.class, "msg": v.msg}));
                }
            }
        }
    }
    let mut o = out.lock();
    let _ = writeln!(o, "A {}", serde_json::to_string(&agg).unwrap());
}

// ---------------------------------------------------------------------------------------
// replay + minimise (run inside a child process)

pub fn exec_replay(h: &dyn Harness, rf: &ReplayFile) -> RunResult {
    execute(h, &rf.plan, &rf.cfg, Decisions::Replay(ser_to_devs(&rf.deviations)))
}

fn same_class(res: &RunResult, class: &str) -> bool {
    res.violation.as_ref().map(|v| v.class == class).unwrap_or(false)
}

/// Delta-debug the deviation list and the op lists while the same violation class persists.
pub fn minimise(h: &dyn Harness, rf: &ReplayFile, budget: usize) -> ReplayFile {
    let mut best = rf.clone();
    let class = rf.violation.class.clone();
    let mut tries = 0usize;
    let attempt = |cand: &ReplayFile, tries: &mut usize| -> Option<RunResult> {
        if *tries >= budget {
            return None;
        }
        *tries += 1;
        let r = exec_replay(h, cand);
        if same_class(&r, &class) { Some(r) } else { None }
    };
    // the starting point must reproduce in replay mode
    match attempt(&best, &mut tries) {
        Some(r) => {
            best.deviations = devs_to_ser(&r.report.deviations);
            best.violation = r.violation.clone().unwrap();
            best.fingerprint = format!("{:016x}", r.report.fingerprint);
            best.log_tail = r.report.log_tail.clone();
        }
        None => {
            best.note = "replay of the seeded run did not reproduce the violation".into();
            return best;
        }
    }
    let mut progress = true;
    while progress && tries < budget {
        progress = false;
        // 1. ddmin over deviations
        let mut chunk = (best.deviations.len() / 2).max(1);
        while chunk >= 1 && !best.deviations.is_empty() && tries < budget {
            let mut i = 0;
            let mut removed_any = false;
            while i < best.deviations.len() && tries < budget {
                let mut cand = best.clone();
                let end = (i + chunk).min(cand.deviations.len());
                cand.deviations.drain(i..end);
                if let Some(r) = attempt(&cand, &mut tries) {
                    cand.deviations = devs_to_ser(&r.report.deviations);
                    cand.violation = r.violation.clone().unwrap();
                    cand.fingerprint = format!("{:016x}", r.report.fingerprint);
                    cand.log_tail = r.report.log_tail.clone();
                    best = cand;
                    removed_any = true;
                    progress = true;
                } else {
                    i += chunk;
                }
            }
            if chunk == 1 && !removed_any {
                break;
            }
            if !removed_any {
                chunk /= 2;
            } else {
                chunk = chunk.min(best.deviations.len().max(1));
            }
            if chunk == 0 {
                break;
            }
        }
        // 2. drop single ops
        let mut t = 0;
        while t < best.plan.threads.len() && tries < budget {
            let mut i = best.plan.threads[t].len();
            while i > 0 && tries < budget {
                i -= 1;
                let mut cand = best.clone();
                cand.plan.threads[t].remove(i);
                if let Some(r) = attempt(&cand, &mut tries) {
                    cand.deviations = devs_to_ser(&r.report.deviations);
                    cand.violation = r.violation.clone().unwrap();
                    cand.fingerprint = format!("{:016x}", r.report.fingerprint);
                    cand.log_tail = r.report.log_tail.clone();
                    best = cand;
                    progress = true;
                }
            }
            t += 1;
        }
        // 3. shrink numeric params towards 1
        let keys: Vec<String> = best.plan.params.keys().cloned().collect();
        for k in keys {
            if !k.starts_with("s_") {
                continue; // only params marked shrinkable
            }
            let v = best.plan.params[&k];
            if v > 1 && tries < budget {
                let mut cand = best.clone();
                cand.plan.params.insert(k.clone(), v - 1);
                if let Some(r) = attempt(&cand, &mut tries) {
                    cand.deviations = devs_to_ser(&r.report.deviations);
                    cand.violation = r.violation.clone().unwrap();
                    cand.fingerprint = format!("{:016x}", r.report.fingerprint);
                    cand.log_tail = r.report.log_tail.clone();
                    best = cand;
                    progress = true;
                }
            }
        }
    }
    best.minimised = true;
    best.note = format!("minimised with {tries} replays");
    best
}

// ---------------------------------------------------------------------------------------
// known findings

#[derive(Clone, Debug, Serialize, Deserialize)]
pub struct KnownFinding {
    pub status: String, // "known" | "fixed"
    pub property: String,
    pub harness: String,
    pub class: String,
    #[serde(default)]
    pub msg_contains: String,
    pub what: String,
    #[serde(default)]
    pub commit: String,
}

pub fn load_known() -> Vec<KnownFinding> {
    let p = "/verif/known_findings.json";
    match std::fs::read_to_string(p) {
        Ok(s) => serde_json::from_str::<Value>(&s).ok().and_then(|v| serde_json::from_value(v["findings"].clone()).ok()).unwrap_or_default(),
        Err(_) => Vec::new(),
    }
}

pub fn match_known<'a>(k: &'a [KnownFinding], rf: &ReplayFile) -> Option<&'a KnownFinding> {
    k.iter().find(|f| f.status == "known" && f.property == rf.property && f.harness == rf.harness && f.class == rf.violation.class && (f.msg_contains.is_empty() || rf.violation.msg.contains(&f.msg_contains)))
}

// ---------------------------------------------------------------------------------------
// driver

pub struct HarnessOutcome {
    pub name: String,
    pub agg: Agg,
    pub violations: Vec<ReplayFile>,
    pub known_hits: Vec<(String, String)>,
    pub determinism_checked: u64,
    pub determinism_divergences: u64,
    pub determinism_transient: u64,
    pub harness_errors: Vec<String>,
    pub wall_s: f64,
}

fn self_exe() -> std::path::PathBuf {
    std::env::current_exe().unwrap()
}

pub fn pin_to_cpu(cpu: usize) {
    unsafe {
        let mut set: libc::cpu_set_t = core::mem::zeroed();
        libc::CPU_SET(cpu, &mut set);
        libc::sched_setaffinity(0, core::mem::size_of::<libc::cpu_set_t>(), &set);
    }
}

fn spawn_worker(h: &str, verif_seed: u64, from: u64, to: u64, mode: Option<&str>, cpu: usize) -> std::process::Child {
    let mut c = std::process::Command::new(self_exe());
    c.env("VSIM_CPU", cpu.to_string());
    c.arg("--worker").arg(h).arg(verif_seed.to_string()).arg(from.to_string()).arg(to.to_string());
    if let Some(m) = mode {
        c.arg(m);
    }
    c.stdout(std::process::Stdio::piped()).stderr(std::process::Stdio::null());
    c.spawn().expect("spawn worker")
}

/// run `total` runs of harness `h` on `workers` processes in batches of `batch`
pub fn drive_harness(h: &dyn Harness, verif_seed: u64, total: u64, workers: usize, batch: u64, mode: Option<&str>, wall_budget_s: f64) -> HarnessOutcome {
    let start = std::time::Instant::now();
    let mut agg = Agg::default();
    let mut viols: Vec<ReplayFile> = Vec::new();
    let mut errors = Vec::new();
    let mut next = 0u64;
    let mut running: Vec<(std::process::Child, u64, u64, std::thread::JoinHandle<(Vec<String>, Vec<String>)>, usize)> = Vec::new();
    let ncpu = std::thread::available_parallelism().map(|n| n.get()).unwrap_or(1);
    let mut free_slots: Vec<usize> = (0..workers).rev().collect();
    let mut stop = false;
    loop {
        while !stop && running.len() < workers && next < total {
            let to = (next + batch).min(total);
            let slot = free_slots.pop().unwrap_or(0);
            let mut ch = spawn_worker(h.name(), verif_seed, next, to, mode, slot % ncpu);
            let so = ch.stdout.take().unwrap();
            let jh = std::thread::spawn(move || {
                let mut a = Vec::new();
                let mut v = Vec::new();
                for line in std::io::BufReader::new(so).lines() {
                    let line = match line {
                        Ok(l) => l,
                        Err(_) => break,
                    };
                    if let Some(r) = line.strip_prefix("A ") {
                        a.push(r.to_string());
                    } else if let Some(r) = line.strip_prefix("V ") {
                        v.push(r.to_string());
                    }
                }
                (a, v)
            });
            running.push((ch, next, to, jh, slot));
            next = to;
        }
        if running.is_empty() {
            break;
        }
        // wait for the oldest
        let (mut ch, from, to, jh, slot) = running.remove(0);
        free_slots.push(slot);
        let st = ch.wait();
        let (a, v) = jh.join().unwrap();
        let ok = st.as_ref().map(|s| s.success()).unwrap_or(false);
        if !ok || a.len() != 1 {
            errors.push(format!("worker for {} runs {from}..{to} failed: status {:?}, {} aggregate lines", h.name(), st, a.len()));
        }
        for l in a {
            match serde_json::from_str::<Agg>(&l) {
                Ok(x) => agg.merge(&x),
                Err(e) => errors.push(format!("bad aggregate line: {e}")),
            }
        }
        for l in v {
            match serde_json::from_str::<ReplayFile>(&l) {
                Ok(x) => viols.push(x),
                Err(e) => errors.push(format!("bad violation line: {e}")),
            }
        }
        if viols.len() >= 2000 || start.elapsed().as_secs_f64() > wall_budget_s {
            stop = true;
        }
    }
    // determinism re-check: re-run the sampled indices in one fresh process each 4 batches
    let mut checked = 0u64;
    let mut diverged = 0u64;
    let mut transient = 0u64;
    {
        let mut samples = agg.sampled_fps.clone();
        samples.sort();
        // choose up to 6 sample points spread over the range; re-run [idx, idx+1)
        let stride = (samples.len() / 24).max(1);
        let picks: Vec<(u64, u64)> = samples.iter().step_by(stride).take(24).cloned().collect();
        let mut kids = Vec::new();
        for (idx, fp) in picks {
            let mut c = std::process::Command::new(self_exe());
            c.arg("--fingerprint").arg(h.name()).arg(verif_seed.to_string()).arg(idx.to_string());
            if let Some(m) = mode {
                c.arg(m);
            }
            c.stdout(std::process::Stdio::piped()).stderr(std::process::Stdio::null());
            kids.push((c.spawn().expect("spawn"), idx, fp));
        }
        for (k, idx, fp) in kids {
            let o = k.wait_with_output().unwrap();
            let s = String::from_utf8_lossy(&o.stdout);
            let got = u64::from_str_radix(s.trim(), 16).unwrap_or(0);
            checked += 1;
            if got != fp {
                // A single disagreement is re-examined before it counts: the run is repeated twice more, one
                // process at a time. Systematic nondeterminism (a seam that leaks) shows again; a disturbance
                // from outside (twice seen on a machine saturated by other builds, never reproduced in 10^4
                // stressed re-runs) does not, and is recorded as `transient` in the evidence instead of
                // turning the whole check into a harness error.
                let mut again = Vec::new();
                for _ in 0..2 {
                    let mut c = std::process::Command::new(self_exe());
                    c.arg("--fingerprint").arg(h.name()).arg(verif_seed.to_string()).arg(idx.to_string());
                    if let Some(m) = mode {
                        c.arg(m);
                    }
                    c.stdout(std::process::Stdio::piped()).stderr(std::process::Stdio::null());
                    let o = c.output().expect("spawn");
                    again.push(u64::from_str_radix(String::from_utf8_lossy(&o.stdout).trim(), 16).unwrap_or(0));
                }
                // (second revision) the outlier can also be the worker's own run: three times a loaded machine
                // produced worker fingerprints that no later execution — worker-style or fresh, stressed or not —
                // ever reproduced. What matters for replay is that fresh executions agree with each other (a
                // violation whose replay does not reproduce is a harness error of its own); so: the two re-runs
                // agreeing with each other and with either first value = transient, anything else = error.
                if again.iter().all(|g| *g == fp) || again.iter().all(|g| *g == got) {
                    transient += 1;
                } else {
                    diverged += 1;
                    errors.push(format!("nondeterminism: {} run {idx} fingerprint {:016x} vs {:016x} (re-runs {:016x?})", h.name(), fp, got, again));
                }
            }
        }
    }
    HarnessOutcome { name: h.name().to_string(), agg, violations: viols, known_hits: Vec::new(), determinism_checked: checked, determinism_divergences: diverged, determinism_transient: transient, harness_errors: errors, wall_s: start.elapsed().as_secs_f64() }
}

/// run a sub-command of ourselves in a child process with a wall clock limit
pub fn child_with_timeout(args: &[String], secs: u64) -> Option<(bool, String)> {
    let mut c = std::process::Command::new(self_exe());
    c.args(args).stdout(std::process::Stdio::piped()).stderr(std::process::Stdio::null());
    let mut ch = c.spawn().ok()?;
    let mut so = ch.stdout.take().unwrap();
    let jh = std::thread::spawn(move || {
        let mut s = String::new();
        let _ = std::io::Read::read_to_string(&mut so, &mut s);
        s
    });
    let start = std::time::Instant::now();
    loop {
        match ch.try_wait() {
            Ok(Some(st)) => {
                let out = jh.join().unwrap_or_default();
                return Some((st.success(), out));
            }
            Ok(None) => {
                if start.elapsed().as_secs() > secs {
                    let _ = ch.kill();
                    let _ = ch.wait();
                    return None;
                }
                std::thread::sleep(std::time::Duration::from_millis(20));
            }
            Err(_) => return None,
        }
    }
}

pub struct CheckSpec<'a> {
    pub property: &'a str,
    pub harnesses: Vec<&'a dyn Harness>,
    pub level: &'a str,
    pub rule: &'a str,
    pub assumptions: Vec<String>,
}

/// Full check of one property: drive all its harnesses, triage violations, write evidence.
/// Returns the process exit code.
pub fn run_check(spec: &CheckSpec, tier: &str, verif_seed: u64, workers: usize, scale: f64) -> i32 {
    let start = std::time::Instant::now();
    let known = load_known();
    let mut outcomes: Vec<HarnessOutcome> = Vec::new();
    let mut exit = 0;
    let mut reported: Vec<Value> = Vec::new();
    let mut known_lines: BTreeSet<String> = BTreeSet::new();
    let mult = if tier == "thorough" { 40.0 } else { 1.0 } * scale;
    // per harness; properties with many harnesses get at least 30 s each in the quick tier
    let wall_budget = (if tier == "thorough" { 1500.0 } else { 170.0 } / spec.harnesses.len() as f64).max(if tier == "thorough" { 200.0 } else { 30.0 });
    for h in &spec.harnesses {
        let total = ((h.quick_runs() as f64) * mult).max(16.0) as u64;
        let batch = (total / (workers as u64 * 4)).clamp(16, 1500);
        let mut o = drive_harness(*h, verif_seed, total, workers, batch, None, wall_budget);
        // triage violations
        let mut seen_classes: BTreeSet<String> = BTreeSet::new();
        let viols = std::mem::take(&mut o.violations);
        for rf in viols.iter() {
            if let Some(k) = match_known(&known, rf) {
                let line = format!("KNOWN-FINDING: property={} {}", k.property, k.what);
                if known_lines.insert(line.clone()) {
                    println!("{line}");
                }
                o.known_hits.push((k.class.clone(), k.what.clone()));
                continue;
            }
            if !seen_classes.insert(rf.violation.class.clone()) {
                continue;
            }
            // minimise in a child, then confirm by replaying the minimised file in a fresh process
            let dir = format!("/verif/replays/{}", spec.property);
            let _ = std::fs::create_dir_all(&dir);
            let raw = format!("{dir}/{}-{}-raw.json", rf.harness.replace('.', "_"), rf.run_index);
            let min = format!("{dir}/{}-{}.json", rf.harness.replace('.', "_"), rf.run_index);
            std::fs::write(&raw, serde_json::to_string_pretty(rf).unwrap()).unwrap();
            let m = child_with_timeout(&["--minimise".into(), raw.clone(), min.clone()], 240);
            let path = if m.map(|x| x.0).unwrap_or(false) && std::path::Path::new(&min).exists() { min.clone() } else { raw.clone() };
            let rep = child_with_timeout(&["--replay".into(), path.clone()], 60);
            match rep {
                Some((_, out)) if out.contains("REPRODUCED") => {
                    println!("VIOLATION property={} replay={}", spec.property, path);
                    println!("  harness={} class={} msg={}", rf.harness, rf.violation.class, rf.violation.msg);
                    reported.push(json!({"harness": rf.harness, "class": rf.violation.class, "msg": rf.violation.msg, "replay": path}));
                    exit = 1;
                }
                _ => {
                    // try the raw file
                    let rep2 = child_with_timeout(&["--replay".into(), raw.clone()], 60);
                    match rep2 {
                        Some((_, out)) if out.contains("REPRODUCED") => {
                            println!("VIOLATION property={} replay={}", spec.property, raw);
                            println!("  harness={} class={} msg={}", rf.harness, rf.violation.class, rf.violation.msg);
                            reported.push(json!({"harness": rf.harness, "class": rf.violation.class, "msg": rf.violation.msg, "replay": raw}));
                            exit = 1;
                        }
                        _ => {
                            o.harness_errors.push(format!("violation of class {} in {} run {} did not reproduce from its replay file {}", rf.violation.class, rf.harness, rf.run_index, raw));
                        }
                    }
                }
            }
        }
        o.violations = viols;
        outcomes.push(o);
    }
    let mut harness_error = false;
    for o in &outcomes {
        for e in &o.harness_errors {
            eprintln!("HARNESS-ERROR {}: {e}", o.name);
            harness_error = true;
        }
    }
    write_evidence(spec, tier, verif_seed, &outcomes, &reported, start.elapsed().as_secs_f64());
    if exit == 1 {
        return 1;
    }
    if harness_error {
        return 2;
    }
    0
}

pub fn write_evidence(spec: &CheckSpec, tier: &str, verif_seed: u64, outcomes: &[HarnessOutcome], reported: &[Value], wall_s: f64) {
    let mut total = Agg::default();
    let mut per = serde_json::Map::new();
    let mut sigs: BTreeSet<u64> = BTreeSet::new();
    let mut det_checked = 0;
    let mut det_div = 0;
    let mut det_transient = 0;
    let mut known_hits = Vec::new();
    let mut components = serde_json::Map::new();
    for (o, h) in outcomes.iter().zip(spec.harnesses.iter()) {
        total.merge(&o.agg);
        let mut hs: BTreeSet<u64> = BTreeSet::new();
        for s in &o.agg.sigs {
            sigs.insert(*s);
            hs.insert(*s);
        }
        det_checked += o.determinism_checked;
        det_div += o.determinism_divergences;
        det_transient += o.determinism_transient;
        for k in &o.known_hits {
            known_hits.push(json!({"harness": o.name, "class": k.0, "what": k.1}));
        }
        components.insert(o.name.clone(), h.components());
        per.insert(o.name.clone(), json!({
            "runs": o.agg.runs, "by_mode": o.agg.by_mode, "distinct_signatures": hs.len(), "nontrivial_runs": o.agg.nontrivial,
            "yield_points": o.agg.steps, "context_switches": o.agg.switches, "probes": o.agg.probes,
            "fault_counts": {"stale_load": o.agg.stale_reads, "write_split": o.agg.splits, "thread_kill": o.agg.kills, "cas_spurious_fail": o.agg.cas_spurious, "harness_fault_choice": o.agg.chooses},
            "step_cap_runs": o.agg.stepcap, "deadlock_runs": o.agg.deadlocks, "inconclusive_runs": o.agg.inconclusive,
            "violations_deciding": o.agg.violations, "beyond_quantifier": {"count": o.agg.beyond, "samples": o.agg.beyond_samples},
            "runs_per_hour": if o.wall_s > 0.0 { (o.agg.runs as f64 / o.wall_s * 3600.0) as u64 } else { 0 },
            "wall_s": o.wall_s,
        }));
    }
    let pr = |names: &[&str]| -> u64 { names.iter().map(|n| total.probes.get(*n).copied().unwrap_or(0)).sum() };
    let mut samples = total.samples.clone();
    if samples.is_empty() {
        samples.push(json!("no nontrivial sample recorded"));
    }
    let ev = json!({
        "property_id": spec.property,
        "tier": tier,
        "seed": verif_seed,
        "level": spec.level,
        "coverage": {
            "evaluations": total.runs,
            "distinct_nontrivial": sigs.len(),
            "rule": spec.rule,
            "samples": samples,
            "runs_per_hour": if wall_s > 0.0 { (total.runs as f64 / wall_s * 3600.0) as u64 } else { 0 },
            "sim_time_covered_s": total.sim_time_ns as f64 / 1e9,
            "yield_points": total.steps,
            "context_switches": total.switches,
            "decision_points": total.decisions,
            "fault_counts": {"stale_load": total.stale_reads, "write_split": total.splits, "thread_kill": total.kills, "cas_spurious_fail": total.cas_spurious, "harness_fault_choice": total.chooses,
                "relocation": pr(&["relocations", "management_block_relocated"]),
                "system_call_failure": pr(&["fault_fired_inside_send", "subscriber_creation_failed_under_fault", "request_failed_under_fault"]),
                "process_kill": pr(&["victim_killed", "cleaner_killed_inside_cleanup"]),
                "clock_jump_or_advance": pr(&["clock_advanced_inside_callback"])},
            "probes": total.probes,
            "per_harness": per,
            "components": components,
            "determinism_recheck": {"runs_rechecked_in_fresh_process": det_checked, "divergences": det_div, "transient_disagreements_not_reproduced_by_two_further_reruns": det_transient},
            "inconclusive_runs": total.inconclusive,
            "step_cap_runs": total.stepcap,
            "known_findings_hit": known_hits,
            "violations_reported": reported,
            "exhaustive": false
        },
        "assumptions": spec.assumptions,
        "wall_s": wall_s,
        "violations": reported.len()
    });
    // sweeps over many seeds (tools/sweep.sh) must not overwrite the committed evidence
    let dir = std::env::var("VSIM_EVIDENCE_DIR").unwrap_or_else(|_| "/verif/evidence".to_string());
    let _ = std::fs::create_dir_all(&dir);
    std::fs::write(format!("{dir}/{}.json", spec.property), serde_json::to_string_pretty(&ev).unwrap()).unwrap();
}

/// The simulated threads of a run that ended in StepCap/Deadlock are parked for ever — possibly while holding the
/// harness's result mutex. Never block on it after the run: take the value if the lock can be had, else start
/// from an empty result (the run is inconclusive anyway).
pub fn take_after_run<T: Default>(m: &std::sync::Arc<std::sync::Mutex<T>>) -> T {
    for _ in 0..200 {
        match m.try_lock() {
            Ok(mut g) => return std::mem::take(&mut *g),
            Err(std::sync::TryLockError::Poisoned(p)) => return std::mem::take(&mut *p.into_inner()),
            Err(std::sync::TryLockError::WouldBlock) => std::thread::sleep(std::time::Duration::from_millis(10)),
        }
    }
    T::default()
}

pub fn silence_panics() {
    if std::env::var("VSIM_PANIC").is_ok() {
        return;
    }
    std::panic::set_hook(Box::new(|_| {}));
}
