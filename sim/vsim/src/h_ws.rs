// C20 — WaitSet dispatch is exact (DESIGN.md §6.20). E-api history engine with the virtual clock:
// listeners on 1..2 event services, one wait set; attach/detach/re-attach, notify, clock advance,
// zero-timeout processing; model of live attachments, pending events and deadline expiry.
use crate::h_ps::{isolated_config, leftovers, remove_leftovers};
use crate::kit::*;
use core::time::Duration;
use iceoryx2::port::listener::Listener;
use iceoryx2::port::notifier::Notifier;
use iceoryx2::prelude::*;
use iceoryx2::waitset::{WaitSetAttachmentError, WaitSetGuard};
use iceoryx2_pal_concurrency_sync::sim::{self, Decisions, Outcome, rng::Rng};
use serde_json::{Value, json};
use std::collections::BTreeMap;
use std::sync::{Arc, Mutex};

#[derive(Default)]
struct Errs {
    errs: Vec<(String, String)>,
    probes: BTreeMap<&'static str, u64>,
}
impl Errs {
    fn err(&mut self, c: &str, m: String) {
        if self.errs.len() < 4 {
            self.errs.push((c.into(), m));
        }
    }
    fn probe(&mut self, k: &'static str) {
        *self.probes.entry(k).or_default() += 1;
    }
}

#[derive(Clone, Copy, PartialEq, Debug)]
enum Kind {
    Notification,
    Deadline,
}
struct Att<S: Service + 'static> {
    kind: Kind,
    guard: WaitSetGuard<'static, 'static, S>,
    // deadline model
    start: u64,
    period: u64,
}
struct Tick<S: Service + 'static> {
    guard: WaitSetGuard<'static, 'static, S>,
    start: u64,
    period: u64,
}

fn expired(start: u64, period: u64, prev: u64, now: u64) -> bool {
    if period == 0 {
        return true;
    }
    let last = (prev.max(start) - start) / period;
    let cur = (now - start) / period;
    last < cur
}

fn run_scenario<S: Service + 'static>(plan: &Plan, errs: &Arc<Mutex<Errs>>)
where
    Listener<S>: iceoryx2_bb_posix::file_descriptor_set::SynchronousMultiplexing,
{
    let config = isolated_config("ws");
    let node = match NodeBuilder::new().config(&config).create::<S>() {
        Ok(n) => n,
        Err(e) => {
            errs.lock().unwrap().err("setup", format!("node creation failed: {e:?}"));
            return;
        }
    };
    let nsvc = plan.p("services") as usize;
    let mut services = Vec::new();
    for k in 0..nsvc {
        let sname: ServiceName = format!("vsim/ws/{}/{k}", plan.p("svc")).as_str().try_into().unwrap();
        match node.service_builder(&sname).event().max_listeners(4).max_notifiers(4).create() {
            Ok(s) => services.push(s),
            Err(e) => {
                errs.lock().unwrap().err("setup", format!("service creation failed: {e:?}"));
                return;
            }
        }
    }
    let notifiers: Vec<Notifier<S>> = services.iter().map(|s| s.notifier_builder().create().expect("notifier")).collect();
    let waitset: &'static WaitSet<S> = Box::leak(Box::new(WaitSetBuilder::new().signal_handling_mode(SignalHandlingMode::Disabled).create::<S>().expect("waitset")));
    // listener i lives on service i % nsvc
    let mut listeners: Vec<Option<*mut Listener<S>>> = vec![None; 4];
    let mut pending = [false; 4];
    let mut atts: Vec<Option<Att<S>>> = (0..4).map(|_| None).collect();
    let mut ticks: Vec<Tick<S>> = Vec::new();
    let mut prev_iteration: u64 = 0;
    let nlisteners = plan.p("listeners") as usize;
    for i in 0..nlisteners {
        let l = services[i % nsvc].listener_builder().create().expect("listener");
        listeners[i] = Some(Box::into_raw(Box::new(l)));
    }
    let now = || sim::now_ns();

    for (opi, o) in plan.threads[0].iter().enumerate() {
        let mut e = errs.lock().unwrap();
        let what = format!("op #{opi} {}{:?}", o.c, o.a);
        let i = o.arg(0) as usize % 4;
        match o.c.as_str() {
            "an" | "ad" => {
                if let Some(lp) = listeners[i] {
                    let l: &'static Listener<S> = unsafe { &*lp };
                    let before = waitset.len();
                    let period = (o.arg(1) as u64).max(1) * 1_000_000;
                    let r = if o.c == "an" { waitset.attach_notification(l) } else { waitset.attach_deadline(l, Duration::from_nanos(period)) };
                    match r {
                        Ok(g) => {
                            if atts[i].is_some() {
                                e.err("double-attach", format!("{what}: listener {i} was attached a second time"));
                            }
                            atts[i] = Some(Att { kind: if o.c == "an" { Kind::Notification } else { Kind::Deadline }, guard: g, start: now(), period });
                            if waitset.len() != before + 1 {
                                e.err("len", format!("{what}: len() is {} after a successful attach, was {before}", waitset.len()));
                            }
                            e.probe("attached");
                        }
                        Err(err) => {
                            e.probe("attach_refused");
                            if atts[i].is_none() {
                                e.err("attach-refused", format!("{what}: attaching listener {i} was refused with {err:?} although it is not attached and the capacity {} is not reached ({before} attached)", waitset.capacity()));
                            }
                            if waitset.len() != before {
                                e.err("len", format!("{what}: a refused attach changed len() from {before} to {}", waitset.len()));
                            }
                            let _ = matches!(err, WaitSetAttachmentError::AlreadyAttached);
                        }
                    }
                }
            }
            "ai" => {
                if ticks.len() < 2 {
                    let period = (o.arg(1) as u64).max(1) * 1_000_000;
                    let before = waitset.len();
                    match waitset.attach_interval(Duration::from_nanos(period)) {
                        Ok(g) => {
                            if waitset.len() != before + 1 {
                                e.err("len", format!("{what}: len() is {} after a successful attach_interval, was {before}", waitset.len()));
                            }
                            ticks.push(Tick { guard: g, start: now(), period });
                            e.probe("interval_attached");
                        }
                        Err(err) => e.err("attach-refused", format!("{what}: attach_interval refused with {err:?}")),
                    }
                }
            }
            "dg" => {
                if let Some(a) = atts[i].take() {
                    let before = waitset.len();
                    drop(a.guard);
                    if waitset.len() + 1 != before {
                        e.err("len", format!("{what}: dropping a guard changed len() from {before} to {}", waitset.len()));
                    }
                    e.probe("guard_dropped");
                }
            }
            "di" => {
                if !ticks.is_empty() {
                    let t = ticks.remove(o.arg(1) as usize % ticks.len());
                    let before = waitset.len();
                    drop(t.guard);
                    // the attachment's capacity slot comes back with the guard (a leaked slot ends in
                    // InsufficientCapacity although nothing is attached)
                    if waitset.len() + 1 != before {
                        e.err("len", format!("{what}: dropping an interval guard changed len() from {before} to {}", waitset.len()));
                    }
                }
            }
            "nt" => {
                let svc = o.arg(0) as usize % nsvc;
                match notifiers[svc].notify() {
                    Ok(_) => {
                        for k in 0..4 {
                            if listeners[k].is_some() && k % nsvc == svc {
                                pending[k] = true;
                            }
                        }
                        e.probe("notified");
                    }
                    Err(err) => e.err("notify-error", format!("{what}: notify failed with {err:?}")),
                }
            }
            "adv" => {
                sim::advance_ns(o.arg(1) as u64 * 500_000);
            }
            "relis" => {
                // detach, destroy and re-create listener i: descriptor (and attachment id) re-use
                if let Some(lp) = listeners[i] {
                    if let Some(a) = atts[i].take() {
                        drop(a.guard);
                    }
                    drop(unsafe { Box::from_raw(lp) });
                    pending[i] = false;
                    let l = services[i % nsvc].listener_builder().create().expect("listener");
                    listeners[i] = Some(Box::into_raw(Box::new(l)));
                    e.probe("listener_recreated");
                }
            }
            "proc" => {
                if waitset.is_empty() {
                    continue;
                }
                let t = now();
                // expected by the model
                let any_missed = atts.iter().flatten().filter(|a| a.kind == Kind::Deadline).any(|a| expired(a.start, a.period, prev_iteration, t)) || ticks.iter().any(|x| expired(x.start, x.period, prev_iteration, t));
                if !any_missed {
                    prev_iteration = t;
                }
                let triggered: Vec<usize> = (0..4).filter(|k| atts[*k].is_some() && pending[*k]).collect();
                for k in triggered.iter() {
                    if let Some(a) = atts[*k].as_mut() {
                        if a.kind == Kind::Deadline {
                            a.start = t;
                        }
                    }
                }
                let exp_missed: Vec<usize> = (0..4).filter(|k| atts[*k].as_ref().map(|a| a.kind == Kind::Deadline && expired(a.start, a.period, prev_iteration, t)).unwrap_or(false)).collect();
                let exp_ticks: Vec<usize> = (0..ticks.len()).filter(|k| expired(ticks[*k].start, ticks[*k].period, prev_iteration, t)).collect();
                prev_iteration = t;
                // what really happens
                let mut got_events: Vec<usize> = Vec::new();
                let mut got_missed: Vec<usize> = Vec::new();
                let mut got_ticks: Vec<usize> = Vec::new();
                let mut unknown = 0;
                let inject = o.arg(1);
                let mut injected = false;
                // a slow callback: virtual time passes while the wait set is processing
                let slow_ns = o.arg(2) as u64 * 500_000;
                let mut slowed = false;
                let r = waitset.wait_and_process_once_with_timeout(
                    |id| {
                        if slow_ns > 0 && !slowed {
                            slowed = true;
                            sim::advance_ns(slow_ns);
                        }
                        if inject > 0 && !injected {
                            injected = true;
                            let svc = (inject as usize - 1) % nsvc;
                            if notifiers[svc].notify().is_ok() {
                                for k in 0..4 {
                                    if listeners[k].is_some() && k % nsvc == svc {
                                        pending[k] = true;
                                    }
                                }
                            }
                        }
                        let mut matched = false;
                        for k in 0..4 {
                            if let Some(a) = atts[k].as_ref() {
                                if id.has_event_from(&a.guard) {
                                    matched = true;
                                    got_events.push(k);
                                    if let Some(lp) = listeners[k] {
                                        let l: &Listener<S> = unsafe { &*lp };
                                        while let Ok(n) = l.try_wait(|_| {}) {
                                            if n == 0 {
                                                break;
                                            }
                                        }
                                    }
                                    pending[k] = false;
                                } else if id.has_missed_deadline(&a.guard) {
                                    matched = true;
                                    got_missed.push(k);
                                }
                            }
                        }
                        for (k, x) in ticks.iter().enumerate() {
                            if id.has_event_from(&x.guard) {
                                matched = true;
                                got_ticks.push(k);
                            }
                        }
                        if !matched {
                            unknown += 1;
                        }
                        CallbackProgression::Continue
                    },
                    Duration::ZERO,
                );
                e.probe("processed");
                if let Err(err) = r {
                    e.err("process-error", format!("{what}: processing failed with {err:?}"));
                }
                if unknown > 0 {
                    e.err("foreign-callback", format!("{what}: the callback was invoked {unknown} time(s) for something that is not currently attached"));
                }
                got_events.sort();
                got_missed.sort();
                got_ticks.sort();
                if got_events != triggered {
                    e.err("events", format!("{what}: callbacks for listener events {got_events:?}, the model expects {triggered:?} (attached listeners with a pending notification)"));
                }
                if got_missed != exp_missed {
                    e.err("deadlines", format!("{what}: missed-deadline callbacks {got_missed:?}, the model expects {exp_missed:?} at t={t}"));
                }
                if got_ticks != exp_ticks {
                    e.err("intervals", format!("{what}: interval callbacks {got_ticks:?}, the model expects {exp_ticks:?} at t={t}"));
                }
                if !got_events.is_empty() {
                    e.probe("event_callbacks");
                }
                if !got_missed.is_empty() {
                    e.probe("deadline_callbacks");
                }
                if !got_ticks.is_empty() {
                    e.probe("interval_callbacks");
                }
                if injected {
                    e.probe("notified_from_inside_callback");
                }
                if slowed {
                    e.probe("clock_advanced_inside_callback");
                }
            }
            _ => {}
        }
        if !e.errs.is_empty() {
            break;
        }
    }
    for a in atts.iter_mut() {
        if let Some(a) = a.take() {
            drop(a.guard);
        }
    }
    ticks.clear();
    for l in listeners.iter_mut() {
        if let Some(lp) = l.take() {
            drop(unsafe { Box::from_raw(lp) });
        }
    }
    drop(notifiers);
    drop(services);
    drop(node);
}

pub struct WaitSetHarness {
    pub ipc: bool,
}
impl Harness for WaitSetHarness {
    fn name(&self) -> &'static str {
        if self.ipc { "c20.waitset_ipc" } else { "c20.waitset_local" }
    }
    fn property(&self) -> &'static str {
        "C20"
    }
    fn modes(&self) -> Vec<(&'static str, u32, bool)> {
        vec![("seq", 1, true)]
    }
    fn quick_runs(&self) -> u64 {
        if self.ipc { 1200 } else { 3000 }
    }
    fn isolate(&self) -> bool {
        true
    }
    fn components(&self) -> Value {
        json!({"real": ["iceoryx2 WaitSet, event services, listeners/notifiers", "reactor (epoll) and its file descriptors — real kernel objects, always polled with zero timeout", "DeadlineQueue"], "stub": ["clock (virtual, advanced by the scenario)", "pid", "choice of which operation comes next"]})
    }
    fn generate(&self, r: &mut Rng, mode: &str) -> (Plan, CfgSer) {
        let mut params = BTreeMap::new();
        params.insert("services".into(), r.range(1, 2));
        params.insert("listeners".into(), r.range(1, 4));
        params.insert("svc".into(), r.range(0, 1_000_000));
        let mut ops = Vec::new();
        for _ in 0..r.range(8, 50) {
            let i = r.range(0, 3);
            let x = r.below(100);
            ops.push(if x < 12 {
                Op::new("an", &[i, 0])
            } else if x < 22 {
                Op::new("ad", &[i, r.range(1, 6)])
            } else if x < 27 {
                Op::new("ai", &[0, r.range(1, 6)])
            } else if x < 37 {
                Op::new("dg", &[i, 0])
            } else if x < 39 {
                Op::new("di", &[0, r.range(0, 1)])
            } else if x < 57 {
                Op::new("nt", &[i, 0])
            } else if x < 69 {
                Op::new("adv", &[0, r.range(1, 8)])
            } else if x < 75 {
                Op::new("relis", &[i, 0])
            } else {
                Op::new("proc", &[0, if r.chance(0.2) { r.range(1, 2) } else { 0 }, if r.chance(0.25) { r.range(1, 12) } else { 0 }])
            });
        }
        let plan = Plan { harness: self.name().into(), mode: mode.into(), params, threads: vec![ops] };
        let mut cfg = CfgSer::base();
        cfg.step_cap = 3_000_000;
        (plan, cfg)
    }
    fn execute(&self, plan: &Plan, cfg: &CfgSer, dec: Decisions) -> RunResult {
        let errs = Arc::new(Mutex::new(Errs::default()));
        let e2 = errs.clone();
        let plan2 = plan.clone();
        let ipc = self.ipc;
        let mut report = sim_run(cfg.to_cfg(), dec, move || {
            if ipc {
                run_scenario::<ipc::Service>(&plan2, &e2);
            } else {
                run_scenario::<local::Service>(&plan2, &e2);
            }
        });
        let pid = unsafe { libc::getpid() };
        let _ = leftovers("ws", pid);
        remove_leftovers("ws", pid);
        #[allow(unused_mut)]
        let mut g = take_after_run(&errs);
        let mut violation = g.errs.first().map(|(c, m)| Violation { class: c.clone(), msg: m.clone() });
        let mut inconclusive = false;
        if violation.is_none() {
            match &report.outcome {
                Outcome::Ok => {}
                Outcome::StepCap => inconclusive = true,
                Outcome::Deadlock { blocked } => violation = viol("deadlock", format!("threads {blocked:?} blocked for ever")),
                Outcome::Panic { thread, msg } => violation = viol("panic", format!("thread {thread} panicked: {}", &msg[..msg.len().min(300)])),
            }
        }
        report.chooses = plan.ops() as u64;
        report.sched_sig = hash_str(&serde_json::to_string(&plan.threads).unwrap());
        let probes = g.probes.iter().map(|(k, v)| (*k, *v)).collect();
        RunResult { report, violation, beyond: None, probes, inconclusive }
    }
}
