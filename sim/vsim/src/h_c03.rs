// C03 — SPSC channels are linearizable FIFOs conserving every element (DESIGN.md §6.3).
// Real IndexQueue / SafelyOverflowingIndexQueue / spsc::Queue from /repo under the simulator.
use crate::kit::lin::{self, Lin, Spec};
use crate::kit::*;
use iceoryx2_bb_lock_free::spsc::index_queue::FixedSizeIndexQueue;
use iceoryx2_bb_lock_free::spsc::queue::Queue;
use iceoryx2_bb_lock_free::spsc::safely_overflowing_index_queue::FixedSizeSafelyOverflowingIndexQueue;
use iceoryx2_pal_concurrency_sync::sim::{self, Decisions, Outcome, rng::Rng};
use serde_json::{Value, json};
use std::collections::BTreeMap;
use std::sync::{Arc, Mutex};

#[derive(Clone, Copy, Debug, PartialEq, Eq, Hash)]
pub enum PushRes {
    Accepted,
    Full,
    Evicted(u64),
}

#[derive(Clone, Debug, PartialEq, Eq, Hash)]
pub enum QOp {
    Push(u64, PushRes),
    Pop(Option<u64>),
}

pub struct FifoSpec {
    pub cap: usize,
    pub overflow: bool,
    /// weak-memory runs: a stale (C11-legal) cursor read may make a pop see "empty" or a push see
    /// "full" although the other side already moved on; such conservative failures are not
    /// violations, so the specification admits them in any state. SC runs use the strict spec.
    pub spurious_fail: bool,
}
impl Spec for FifoSpec {
    type S = Vec<u64>;
    type O = QOp;
    fn init(&self) -> Vec<u64> {
        Vec::new()
    }
    fn step(&self, s: &Vec<u64>, op: &QOp) -> Vec<Vec<u64>> {
        let r = match op {
            QOp::Push(v, PushRes::Accepted) => {
                if s.len() < self.cap {
                    let mut n = s.clone();
                    n.push(*v);
                    Some(n)
                } else {
                    None
                }
            }
            QOp::Push(_, PushRes::Full) => {
                if !self.overflow && (s.len() == self.cap || self.spurious_fail) { Some(s.clone()) } else { None }
            }
            QOp::Push(v, PushRes::Evicted(e)) => {
                if self.overflow && s.len() == self.cap && s.first() == Some(e) {
                    let mut n = s[1..].to_vec();
                    n.push(*v);
                    Some(n)
                } else {
                    None
                }
            }
            QOp::Pop(Some(v)) => {
                if s.first() == Some(v) { Some(s[1..].to_vec()) } else { None }
            }
            QOp::Pop(None) => {
                if s.is_empty() || self.spurious_fail { Some(s.clone()) } else { None }
            }
        };
        r.into_iter().collect()
    }
}

pub trait SpscQ: Send + Sync + 'static {
    type P<'a>
    where
        Self: 'a;
    type C<'a>
    where
        Self: 'a;
    fn acquire_p(&self) -> Option<Self::P<'_>>;
    fn acquire_c(&self) -> Option<Self::C<'_>>;
    fn push(p: &mut Self::P<'_>, v: u64) -> PushRes;
    /// Err = torn element
    fn pop(c: &mut Self::C<'_>) -> Result<Option<u64>, String>;
}

macro_rules! impl_iq {
    ($cap:literal) => {
        impl SpscQ for FixedSizeIndexQueue<$cap> {
            type P<'a> = iceoryx2_bb_lock_free::spsc::index_queue::Producer<'a, iceoryx2_bb_elementary::relocatable_pointer::RelocatablePointer<iceoryx2_bb_concurrency::cell::UnsafeCell<u64>>>;
            type C<'a> = iceoryx2_bb_lock_free::spsc::index_queue::Consumer<'a, iceoryx2_bb_elementary::relocatable_pointer::RelocatablePointer<iceoryx2_bb_concurrency::cell::UnsafeCell<u64>>>;
            fn acquire_p(&self) -> Option<Self::P<'_>> { self.acquire_producer() }
            fn acquire_c(&self) -> Option<Self::C<'_>> { self.acquire_consumer() }
            fn push(p: &mut Self::P<'_>, v: u64) -> PushRes { if p.push(v) { PushRes::Accepted } else { PushRes::Full } }
            fn pop(c: &mut Self::C<'_>) -> Result<Option<u64>, String> { Ok(c.pop()) }
        }
        impl SpscQ for FixedSizeSafelyOverflowingIndexQueue<$cap> {
            type P<'a> = iceoryx2_bb_lock_free::spsc::safely_overflowing_index_queue::Producer<'a, iceoryx2_bb_elementary::relocatable_pointer::RelocatablePointer<iceoryx2_bb_concurrency::cell::UnsafeCell<u64>>>;
            type C<'a> = iceoryx2_bb_lock_free::spsc::safely_overflowing_index_queue::Consumer<'a, iceoryx2_bb_elementary::relocatable_pointer::RelocatablePointer<iceoryx2_bb_concurrency::cell::UnsafeCell<u64>>>;
            fn acquire_p(&self) -> Option<Self::P<'_>> { self.acquire_producer() }
            fn acquire_c(&self) -> Option<Self::C<'_>> { self.acquire_consumer() }
            fn push(p: &mut Self::P<'_>, v: u64) -> PushRes { match p.push(v) { None => PushRes::Accepted, Some(e) => PushRes::Evicted(e) } }
            fn pop(c: &mut Self::C<'_>) -> Result<Option<u64>, String> { Ok(c.pop()) }
        }
        impl SpscQ for Queue<[u64; 3], $cap> {
            type P<'a> = iceoryx2_bb_lock_free::spsc::queue::Producer<'a, [u64; 3], $cap>;
            type C<'a> = iceoryx2_bb_lock_free::spsc::queue::Consumer<'a, [u64; 3], $cap>;
            fn acquire_p(&self) -> Option<Self::P<'_>> { self.acquire_producer() }
            fn acquire_c(&self) -> Option<Self::C<'_>> { self.acquire_consumer() }
            fn push(p: &mut Self::P<'_>, v: u64) -> PushRes { if p.push(&[v, !v, v.wrapping_mul(3)]) { PushRes::Accepted } else { PushRes::Full } }
            fn pop(c: &mut Self::C<'_>) -> Result<Option<u64>, String> {
                match c.pop() {
                    None => Ok(None),
                    Some(x) => if x[1] == !x[0] && x[2] == x[0].wrapping_mul(3) { Ok(Some(x[0])) } else { Err(format!("torn element {:x?}", x)) },
                }
            }
        }
    };
}
impl_iq!(1);
impl_iq!(2);
impl_iq!(3);
impl_iq!(4);

#[derive(Default)]
pub struct Shared {
    pub ops: Vec<QOp>,
    pub inv: Vec<lin::Mark>,
    pub ret: Vec<Option<lin::Mark>>,
    pub tokens: BTreeMap<u64, sim::Token>,
    pub errs: Vec<(String, String)>,
    pub consumed: Vec<u64>,
    pub evicted: Vec<u64>,
    pub accepted: Vec<u64>,
    pub drained: Vec<u64>,
    pub probes: BTreeMap<&'static str, u64>,
}
impl Shared {
    fn err(&mut self, class: &str, msg: String) {
        if self.errs.len() < 4 {
            self.errs.push((class.to_string(), msg));
        }
    }
    fn probe(&mut self, k: &'static str) {
        *self.probes.entry(k).or_default() += 1;
    }
}

fn mk() -> lin::Mark {
    let (s, c) = sim::mark();
    lin::Mark { stamp: s, clock: c }
}

fn do_push<Q: SpscQ>(sh: &Arc<Mutex<Shared>>, p: &mut Q::P<'_>, v: u64) {
    let idx;
    {
        let m = mk();
        let mut g = sh.lock().unwrap();
        g.tokens.insert(v, sim::Token(m.clock));
        idx = g.ops.len();
        g.ops.push(QOp::Push(v, PushRes::Accepted));
        g.inv.push(m);
        g.ret.push(None);
    }
    let r = Q::push(p, v);
    let m = mk();
    let mut g = sh.lock().unwrap();
    g.ops[idx] = QOp::Push(v, r);
    g.ret[idx] = Some(m);
    match r {
        PushRes::Accepted => g.accepted.push(v),
        PushRes::Full => g.probe("push_saw_full"),
        PushRes::Evicted(e) => {
            g.accepted.push(v);
            g.probe("push_evicted_oldest");
            if g.evicted.contains(&e) || g.consumed.contains(&e) {
                { let m_ = format!("push({v}) got evicted value {e} which was already handed out (consumed={:?} evicted={:?})", g.consumed, g.evicted); g.err("duplicate", m_); }
            }
            if !g.tokens.contains_key(&e) {
                { let m_ = format!("push({v}) got evicted value {e} that was never pushed"); g.err("invented", m_); }
            }
            if let Some(l) = g.evicted.last().cloned() {
                if l >= e {
                    { let m_ = format!("evicted values out of order: {l} then {e}"); g.err("order", m_); }
                }
            }
            g.evicted.push(e);
        }
    }
}

fn do_pop<Q: SpscQ>(sh: &Arc<Mutex<Shared>>, c: &mut Q::C<'_>, weak: bool, draining: bool) -> Option<u64> {
    let idx;
    {
        let m = mk();
        let mut g = sh.lock().unwrap();
        idx = g.ops.len();
        g.ops.push(QOp::Pop(None));
        g.inv.push(m);
        g.ret.push(None);
    }
    let r = Q::pop(c);
    let tok_ok = |t: &sim::Token| t.happened_before_now();
    let m = mk();
    let mut g = sh.lock().unwrap();
    g.ret[idx] = Some(m);
    match r {
        Err(e) => {
            g.err("torn", e);
            None
        }
        Ok(None) => None,
        Ok(Some(v)) => {
            g.ops[idx] = QOp::Pop(Some(v));
            match g.tokens.get(&v).cloned() {
                None => g.err("invented", format!("pop returned {v} which was never pushed")),
                Some(t) => {
                    // the push's invocation must happen-before the pop's return (payload hand-over)
                    if !lin::clock_le(&t.0, &m.clock) {
                        let _ = tok_ok;
                        { let m_ = format!("pop returned {v} without a happens-before edge from its push"); g.err("no-happens-before", m_); }
                    }
                }
            }
            if g.consumed.contains(&v) || g.evicted.contains(&v) {
                { let m_ = format!("pop returned {v} which was already handed out (consumed={:?} evicted={:?})", g.consumed, g.evicted); g.err("duplicate", m_); }
            }
            if let Some(l) = g.consumed.last().cloned() {
                if l >= v {
                    { let m_ = format!("consumer saw {l} before {v}"); g.err("order", m_); }
                }
            }
            g.consumed.push(v);
            if draining {
                g.drained.push(v);
            }
            let _ = weak;
            Some(v)
        }
    }
}

const ACQ_TRIES: usize = 6;

fn body<Q: SpscQ>(q: Arc<Q>, plan: Plan, sh: Arc<Mutex<Shared>>, weak: bool, cap: usize) {
    sim::arena(Arc::as_ptr(&q) as *const u8, core::mem::size_of::<Q>());
    let handover = plan.p("handover");
    let has_x = handover != 0 && plan.threads.len() > 2;
    // the hand-over thread X is spawned by the first holder right after it acquired its role, so that
    // "first holder" is well defined; X then races for the role with the holder's drop.
    let spawn_x = {
        let (q, sh, ops) = (q.clone(), sh.clone(), plan.threads.get(2).cloned().unwrap_or_default());
        move || {
            sim::spawn("X", move || {
                if handover == 1 {
                    for _ in 0..ACQ_TRIES {
                        if let Some(mut p) = q.acquire_p() {
                            sh.lock().unwrap().probe("producer_handover");
                            for o in ops.iter() {
                                do_push::<Q>(&sh, &mut p, o.arg(0) as u64);
                            }
                            break;
                        }
                    }
                } else {
                    for _ in 0..ACQ_TRIES {
                        if let Some(mut c) = q.acquire_c() {
                            sh.lock().unwrap().probe("consumer_handover");
                            for _ in ops.iter() {
                                do_pop::<Q>(&sh, &mut c, weak, false);
                            }
                            break;
                        }
                    }
                }
            })
        }
    };
    let spawn_x = Arc::new(Mutex::new(Some(spawn_x)));
    let mut hs = Vec::new();
    // producer
    {
        let (q, sh, ops, sx) = (q.clone(), sh.clone(), plan.threads[0].clone(), spawn_x.clone());
        hs.push(sim::spawn("P", move || {
            let mut p = match q.acquire_p() {
                Some(p) => p,
                None => {
                    sh.lock().unwrap().err("role", "first producer could not be acquired".into());
                    return;
                }
            };
            let x = if has_x && handover == 1 { sx.lock().unwrap().take().map(|f| f()) } else { None };
            for o in ops.iter() {
                do_push::<Q>(&sh, &mut p, o.arg(0) as u64);
            }
            drop(p);
            if let Some(x) = x {
                let _ = x.join();
            }
        }));
    }
    // consumer
    {
        let (q, sh, ops, sx) = (q.clone(), sh.clone(), plan.threads[1].clone(), spawn_x.clone());
        hs.push(sim::spawn("C", move || {
            let mut c = match q.acquire_c() {
                Some(c) => c,
                None => {
                    sh.lock().unwrap().err("role", "first consumer could not be acquired".into());
                    return;
                }
            };
            let x = if has_x && handover == 2 { sx.lock().unwrap().take().map(|f| f()) } else { None };
            for _ in ops.iter() {
                do_pop::<Q>(&sh, &mut c, weak, false);
            }
            drop(c);
            if let Some(x) = x {
                let _ = x.join();
            }
        }));
    }
    for h in hs {
        let _ = h.join();
    }
    // sequential drain; a corrupted queue must not make it spin for ever
    match q.acquire_c() {
        None => sh.lock().unwrap().err("role", "consumer role not available after all holders were dropped".into()),
        Some(mut c) => {
            let mut n = 0;
            while do_pop::<Q>(&sh, &mut c, weak, true).is_some() {
                n += 1;
                if n > cap + 1 {
                    sh.lock().unwrap().err("capacity", format!("sequential drain returned more than capacity+1 = {} elements", cap + 1));
                    break;
                }
            }
            if n > cap {
                sh.lock().unwrap().err("capacity", format!("queue held {n} elements at quiescence, capacity is {cap}"));
            }
        }
    }
}

pub struct QueueHarness {
    pub kind: &'static str, // "iq" | "oq" | "q"
}

impl QueueHarness {
    fn judge(&self, plan: &Plan, cfg: &CfgSer, sh: &Shared, outcome: &Outcome) -> (Option<Violation>, bool) {
        if let Some((c, m)) = sh.errs.first() {
            return (viol(c, m.clone()), false);
        }
        match outcome {
            Outcome::Ok => {}
            Outcome::StepCap => return (None, true),
            Outcome::Deadlock { blocked } => return (viol("deadlock", format!("threads {blocked:?} blocked for ever")), false),
            Outcome::Panic { thread, msg } => return (viol("panic", format!("thread {thread} panicked: {msg}")), false),
        }
        // conservation: accepted = consumed ⊎ evicted (drained ⊂ consumed), each exactly once
        let mut all: Vec<u64> = sh.consumed.iter().chain(sh.evicted.iter()).cloned().collect();
        all.sort();
        let mut acc = sh.accepted.clone();
        acc.sort();
        if all != acc {
            return (viol("conservation", format!("accepted pushes {:?} != consumed {:?} + evicted {:?}", sh.accepted, sh.consumed, sh.evicted)), false);
        }
        // linearizability against the bounded FIFO
        let n = sh.ops.len();
        if n <= 40 {
            let spec = FifoSpec { cap: plan.p("cap") as usize, overflow: self.kind == "oq", spurious_fail: cfg.weak };
            let completed: Vec<bool> = sh.ret.iter().map(|r| r.is_some()).collect();
            let weak = cfg.weak;
            let prec = |a: usize, b: usize| -> bool {
                match &sh.ret[a] {
                    None => false,
                    Some(ra) => {
                        if weak { lin::clock_le(&ra.clock, &sh.inv[b].clock) } else { ra.stamp < sh.inv[b].stamp }
                    }
                }
            };
            match lin::check(&spec, &sh.ops, &completed, &prec, 300_000) {
                Lin::Ok => {}
                Lin::Inconclusive => return (None, true),
                Lin::Violation => {
                    return (viol("not-linearizable", format!("history has no linearization against the bounded FIFO (cap {}): {:?}", spec.cap, sh.ops)), false);
                }
            }
        }
        (None, false)
    }
}

impl Harness for QueueHarness {
    fn name(&self) -> &'static str {
        match self.kind {
            "iq" => "c03.index_queue",
            "oq" => "c03.overflowing_index_queue",
            _ => "c03.spsc_queue",
        }
    }
    fn property(&self) -> &'static str {
        "C03"
    }
    fn modes(&self) -> Vec<(&'static str, u32, bool)> {
        vec![("sc", 3, true), ("weak", 5, true), ("sc+p1", 2, true)]
    }
    fn quick_runs(&self) -> u64 {
        60_000
    }
    fn components(&self) -> Value {
        json!({"real": ["iceoryx2-bb-lock-free spsc queue code from the working tree", "iceoryx2-bb-elementary RelocatablePointer"],
               "stub": ["atomic ordering semantics (view based C11 model)", "thread scheduler"]})
    }
    fn generate(&self, r: &mut Rng, mode: &str) -> (Plan, CfgSer) {
        let cap = r.range(1, 4);
        let handover = if r.chance(0.25) { r.range(1, 2) } else { 0 };
        let npush = r.range(1, 8);
        let npop = r.range(1, 8);
        let mut t0 = Vec::new();
        let mut t1 = Vec::new();
        let mut t2 = Vec::new();
        let split = if handover == 1 { r.range(1, npush) } else { npush };
        for v in 1..=npush {
            if v <= split { t0.push(Op::new("push", &[v])) } else { t2.push(Op::new("push", &[v])) }
        }
        let splitc = if handover == 2 { r.range(1, npop) } else { npop };
        for i in 1..=npop {
            if i <= splitc { t1.push(Op::new("pop", &[])) } else { t2.push(Op::new("pop", &[])) }
        }
        let mut params = BTreeMap::new();
        params.insert("cap".to_string(), cap);
        params.insert("handover".to_string(), handover);
        let plan = Plan { harness: self.name().to_string(), mode: mode.to_string(), params, threads: vec![t0, t1, t2] };
        let mut cfg = CfgSer::base();
        cfg.step_cap = 4000;
        cfg.draw_strategy(r, 60);
        if mode == "weak" {
            cfg.weak = true;
            cfg.stale_prob = *r.pick(&[0.1, 0.3, 0.5]);
            cfg.cas_weak_fail_prob = 0.05;
        }
        if mode == "sc+p1" {
            cfg.post_yield_prob = 0.15;
            cfg.p1 = true;
            cfg.split_prob = 0.3;
        }
        (plan, cfg)
    }
    fn execute(&self, plan: &Plan, cfg: &CfgSer, dec: Decisions) -> RunResult {
        let sh = Arc::new(Mutex::new(Shared::default()));
        let sh2 = sh.clone();
        let cap = plan.p("cap") as usize;
        let weak = cfg.weak;
        let p = plan.clone();
        let kind = self.kind;
        macro_rules! go {
            ($t:ty) => {{
                let q: Arc<$t> = Arc::new(<$t>::new());
                // slots of the generic queue start uninitialised: give them a fixed content (push/pop once
                // around) so that write-split detection does not depend on heap garbage
                {
                    let mut p_ = q.acquire_p().unwrap();
                    let mut c_ = q.acquire_c().unwrap();
                    for _ in 0..cap {
                        let _ = <$t as SpscQ>::push(&mut p_, 0xA5A5);
                    }
                    for _ in 0..cap {
                        let _ = <$t as SpscQ>::pop(&mut c_);
                    }
                }
                sim_run(cfg.to_cfg(), dec, move || body::<$t>(q, p, sh2, weak, cap))
            }};
        }
        let report = match (kind, cap) {
            ("iq", 1) => go!(FixedSizeIndexQueue<1>),
            ("iq", 2) => go!(FixedSizeIndexQueue<2>),
            ("iq", 3) => go!(FixedSizeIndexQueue<3>),
            ("iq", _) => go!(FixedSizeIndexQueue<4>),
            ("oq", 1) => go!(FixedSizeSafelyOverflowingIndexQueue<1>),
            ("oq", 2) => go!(FixedSizeSafelyOverflowingIndexQueue<2>),
            ("oq", 3) => go!(FixedSizeSafelyOverflowingIndexQueue<3>),
            ("oq", _) => go!(FixedSizeSafelyOverflowingIndexQueue<4>),
            (_, 1) => go!(Queue<[u64; 3], 1>),
            (_, 2) => go!(Queue<[u64; 3], 2>),
            (_, 3) => go!(Queue<[u64; 3], 3>),
            (_, _) => go!(Queue<[u64; 3], 4>),
        };
        let g = sh.lock().unwrap();
        let (violation, inconclusive) = self.judge(plan, cfg, &g, &report.outcome);
        let probes = g.probes.iter().map(|(k, v)| (*k, *v)).collect();
        RunResult { report, violation, beyond: None, probes, inconclusive }
    }
}
