// E-proc harnesses (DESIGN.md §6.4, §6.7): real child processes on the ipc service variant, stepped at
// every wrapped system call and every atomic operation on shared memory; the controller owns the
// interleaving, the clock and SIGKILL.
//   c07.node_liveness  — monitor verdicts while a node starts up / runs / shuts down / is killed; racing cleaners
//   c04.crash_cleanup  — victim killed at an arbitrary yield of a lifecycle segment; survivor cleans up and goes on
use crate::h_ps::{Pay, leftovers, pay, pay_ok, remove_leftovers, root_of};
use crate::kit::proc::{Decider, ProcOutcome, ProcRun, Role, run_proc};
use crate::kit::*;
use iceoryx2::node::{NodeCleanupFailure, NodeState, NodeView};
use iceoryx2::prelude::*;
use iceoryx2_bb_container::semantic_string::SemanticString;
use iceoryx2_bb_system_types::file_name::FileName;
use iceoryx2_bb_system_types::path::Path;
use iceoryx2_pal_concurrency_sync::sim::{self, Decisions, Outcome, Report, remote};
use serde_json::{Value, json};
use std::collections::BTreeMap;

type S = ipc::Service;

fn domain_config(owner_pid: i32) -> Config {
    let root = root_of(owner_pid);
    let _ = std::fs::create_dir_all(&root);
    let mut config = Config::default();
    config.global.set_root_path(&Path::new(root.as_bytes()).unwrap());
    config.global.prefix = FileName::new(format!("vspr{}_", owner_pid).as_bytes()).unwrap();
    config.global.node.cleanup_dead_nodes_on_creation = false;
    config.global.node.cleanup_dead_nodes_on_destruction = false;
    config.global.service.cleanup_dead_nodes_on_open = false;
    config
}

fn state_name(s: &NodeState<S>) -> (u128, &'static str) {
    match s {
        NodeState::Alive(v) => (v.id().value(), "Alive"),
        NodeState::Dead(v) => (v.id().value(), "Dead"),
        NodeState::Inaccessible(id) => (id.value(), "Inaccessible"),
        NodeState::Undefined(id) => (id.value(), "Undefined"),
    }
}

/// what a child does with its script; everything it learns goes to the controller as observations
fn child_main(owner_pid: i32, script: &[Op]) {
    let config = domain_config(owner_pid);
    let mut node: Option<Node<S>> = None;
    let mut keep: Vec<Box<dyn std::any::Any>> = Vec::new();
    let mut pubsub: Option<iceoryx2::service::port_factory::publish_subscribe::PortFactory<S, Pay, ()>> = None;
    let mut publisher: Option<iceoryx2::port::publisher::Publisher<S, Pay, ()>> = None;
    let mut subscriber: Option<iceoryx2::port::subscriber::Subscriber<S, Pay, ()>> = None;
    let mut event: Option<iceoryx2::service::port_factory::event::PortFactory<S>> = None;
    let mut seq = 0u64;
    for (opi, o) in script.iter().enumerate() {
        remote::observe(&format!("phase {opi} {}", o.c));
        match o.c.as_str() {
            "node" => match NodeBuilder::new().config(&config).create::<S>() {
                Ok(n) => {
                    remote::observe(&format!("node_id {}", n.id().value()));
                    node = Some(n);
                }
                Err(e) => remote::observe(&format!("node_error {e:?}")),
            },
            "pubsub" => {
                if let Some(n) = &node {
                    let name: ServiceName = format!("vsim/proc/ps{}", o.arg(0)).as_str().try_into().unwrap();
                    match n.service_builder(&name).publish_subscribe::<Pay>().max_publishers(4).max_subscribers(4).max_nodes(6).open_or_create() {
                        Ok(s) => {
                            remote::observe("service_ok");
                            pubsub = Some(s);
                        }
                        Err(e) => remote::observe(&format!("service_error {e:?}")),
                    }
                }
            }
            "event" => {
                if let Some(n) = &node {
                    let name: ServiceName = format!("vsim/proc/ev{}", o.arg(0)).as_str().try_into().unwrap();
                    match n.service_builder(&name).event().max_nodes(6).open_or_create() {
                        Ok(s) => {
                            remote::observe("service_ok");
                            event = Some(s);
                        }
                        Err(e) => remote::observe(&format!("service_error {e:?}")),
                    }
                }
            }
            "publisher" => {
                if let Some(s) = &pubsub {
                    match s.publisher_builder().create() {
                        Ok(p) => {
                            remote::observe("port_ok publisher");
                            publisher = Some(p);
                        }
                        Err(e) => remote::observe(&format!("port_error publisher {e:?}")),
                    }
                }
            }
            "subscriber" => {
                if let Some(s) = &pubsub {
                    match s.subscriber_builder().create() {
                        Ok(p) => {
                            remote::observe("port_ok subscriber");
                            subscriber = Some(p);
                        }
                        Err(e) => remote::observe(&format!("port_error subscriber {e:?}")),
                    }
                }
            }
            "notifier" => {
                if let Some(s) = &event {
                    match s.notifier_builder().create() {
                        Ok(p) => {
                            remote::observe("port_ok notifier");
                            let _ = p.notify();
                            keep.push(Box::new(p));
                        }
                        Err(e) => remote::observe(&format!("port_error notifier {e:?}")),
                    }
                }
            }
            "listener" => {
                if let Some(s) = &event {
                    match s.listener_builder().create() {
                        Ok(p) => {
                            remote::observe("port_ok listener");
                            keep.push(Box::new(p));
                        }
                        Err(e) => remote::observe(&format!("port_error listener {e:?}")),
                    }
                }
            }
            "send" => {
                if let Some(p) = &publisher {
                    seq += 1;
                    match p.send_copy(pay((remote::virtual_pid() as u64) << 32 | seq)) {
                        Ok(n) => remote::observe(&format!("sent {n}")),
                        Err(e) => remote::observe(&format!("send_error {e:?}")),
                    }
                }
            }
            "recv" => {
                if let Some(s) = &subscriber {
                    match s.receive() {
                        Ok(Some(x)) => remote::observe(&format!("received {} {:#x}", pay_ok(x.payload()), x.payload()[0])),
                        Ok(None) => remote::observe("received none"),
                        Err(e) => remote::observe(&format!("receive_error {e:?}")),
                    }
                }
            }
            "create" | "open" | "ooc" => {
                // C06: service creation / opening with settings (create) or requirements (open)
                if node.is_none() {
                    continue;
                }
                if pubsub.is_some() {
                    remote::observe("svc_dropping");
                    pubsub = None;
                    remote::observe("svc_dropped");
                }
                let n = node.as_ref().unwrap();
                let name: ServiceName = "vsim/proc/c06".try_into().unwrap();
                let (mp, ms, h) = (o.arg(0) as usize, o.arg(1) as usize, o.arg(2) as usize);
                let b = n.service_builder(&name).publish_subscribe::<Pay>().max_publishers(mp).max_subscribers(ms).history_size(h).subscriber_max_buffer_size(2).max_nodes(6);
                let r = match o.c.as_str() {
                    "create" => b.create().map_err(|e| format!("{e:?}")),
                    "open" => b.open().map_err(|e| format!("{e:?}")),
                    _ => b.open_or_create().map_err(|e| format!("{e:?}")),
                };
                match r {
                    Ok(sv) => {
                        let c = sv.static_config();
                        remote::observe(&format!("svc_ok {} cfg={},{},{}", o.c, c.max_publishers(), c.max_subscribers(), c.history_size()));
                        // a handle that was handed out must be fully usable at once
                        let _ = sv.dynamic_config().number_of_publishers();
                        match sv.subscriber_builder().create() {
                            Ok(p) => drop(p),
                            Err(iceoryx2::port::subscriber::SubscriberCreateError::ExceedsMaxSupportedSubscribers) => {}
                            Err(e) => remote::observe(&format!("svc_unusable {e:?}")),
                        }
                        pubsub = Some(sv);
                    }
                    Err(e) => remote::observe(&format!("svc_err {} {e}", o.c)),
                }
            }
            "dropsvc" => {
                if pubsub.is_some() {
                    remote::observe("svc_dropping");
                    pubsub = None;
                    remote::observe("svc_dropped");
                }
            }
            "recreate" => {
                if let Some(n) = &node {
                    let name: ServiceName = format!("vsim/proc/ps{}", o.arg(0)).as_str().try_into().unwrap();
                    match n.service_builder(&name).publish_subscribe::<Pay>().max_publishers(2).max_subscribers(5).max_nodes(7).history_size(1).create() {
                        Ok(s) => {
                            remote::observe("recreate_ok");
                            drop(s);
                        }
                        Err(e) => remote::observe(&format!("recreate_error {e:?}")),
                    }
                }
            }
            "hold" => remote::sleep_ns(o.arg(0) as u64 * 1_000_000),
            "dropall" => {
                publisher = None;
                subscriber = None;
                keep.clear();
                pubsub = None;
                event = None;
                node = None;
                remote::observe("dropped");
            }
            "list" => {
                // report the state of every node this process can see
                let mut out = String::new();
                let r = Node::<S>::list(&config, |st| {
                    let (id, name) = state_name(&st);
                    out.push_str(&format!("{id}:{name},"));
                    CallbackProgression::Continue
                });
                match r {
                    Ok(()) => remote::observe(&format!("list {out}")),
                    Err(e) => remote::observe(&format!("list_error {e:?}")),
                }
            }
            "cleanup" => {
                // try to remove the stale resources of every dead node
                let mut dead = Vec::new();
                let _ = Node::<S>::list(&config, |st| {
                    if let NodeState::Dead(v) = st {
                        dead.push(v);
                    }
                    CallbackProgression::Continue
                });
                if dead.is_empty() {
                    remote::observe("cleanup none");
                }
                for v in dead {
                    let id = v.id().value();
                    match v.try_remove_stale_resources() {
                        Ok(()) => remote::observe(&format!("cleanup {id} ok")),
                        Err(NodeCleanupFailure::ResourcesAlreadyCleanedUp) => remote::observe(&format!("cleanup {id} already")),
                        Err(NodeCleanupFailure::AnotherInstanceIsCleaningUpTheNode) => remote::observe(&format!("cleanup {id} other")),
                        Err(e) => remote::observe(&format!("cleanup {id} error {e:?}")),
                    }
                }
            }
            _ => {}
        }
    }
    // orderly exit: drop everything
    remote::observe("phase 999 exit");
    if pubsub.is_some() {
        remote::observe("svc_dropping");
    }
    drop(publisher);
    drop(subscriber);
    drop(keep);
    drop(pubsub);
    drop(event);
    drop(node);
}

fn ops(list: &[(&str, i64)]) -> Vec<Op> {
    list.iter().map(|(c, a)| Op::new(c, &[*a])).collect()
}

pub struct ProcHarness {
    pub kind: &'static str, // "c07" | "c04"
}

fn roles_from_plan(plan: &Plan) -> Vec<Role> {
    plan.threads
        .iter()
        .enumerate()
        .map(|(i, s)| Role { name: format!("P{i}"), script: s.clone(), killable: plan.p("victim") == i as i64 || plan.p("victim2") == i as i64 + 100 })
        .collect()
}

fn node_id_of(run: &ProcRun, child: usize) -> Option<String> {
    run.obs.iter().find(|o| o.0 == child && o.1.starts_with("node_id ")).map(|o| o.1[8..].to_string())
}

impl ProcHarness {
    fn judge_c07(&self, plan: &Plan, run: &ProcRun) -> (Option<Violation>, Vec<(&'static str, u64)>) {
        let mut probes: Vec<(&'static str, u64)> = Vec::new();
        let victim = plan.p("victim") as usize;
        let vid = match node_id_of(run, victim) {
            Some(v) => v,
            None => return (None, vec![("victim_had_no_node_yet", 1)]),
        };
        // event index at which the victim was killed (it is alive before)
        let kill_ev: Option<usize> = run.killed.iter().find(|k| k.0 == victim).map(|_| run.events.iter().rposition(|e| e.child == victim).unwrap_or(0));
        // the victim is demonstrably running at an observation if it still performs steps afterwards
        let last_victim_ev = run.events.iter().rposition(|e| e.child == victim).unwrap_or(0);
        // the victim's orderly end: after "dropped" it is allowed to be absent, never Dead while running
        let mut after_kill_states: Vec<&str> = Vec::new();
        let mut cleanup_ok = 0;
        for (child, text, evidx) in run.obs.iter() {
            if *child == victim {
                continue;
            }
            if let Some(rest) = text.strip_prefix("list ") {
                let st = rest.split(',').find(|e| e.starts_with(&format!("{vid}:"))).map(|e| e.split(':').nth(1).unwrap_or(""));
                let victim_running = match kill_ev {
                    None => *evidx < last_victim_ev,
                    Some(k) => *evidx < k,
                };
                let victim_gone = match kill_ev {
                    None => false,
                    Some(k) => *evidx > k,
                };
                match st {
                    Some("Dead") if victim_running => {
                        probes.push(("verdicts", 1));
                        // known finding: a query that overlaps the orderly destruction finds the state file
                        // already removed and maps that to Dead
                        let in_shutdown = run.events.iter().take(*evidx).any(|e| e.child == victim && e.kind == "remove" && e.detail.ends_with(".node_monitor"));
                        return (viol(if in_shutdown { "live-node-reported-dead-during-orderly-shutdown" } else { "live-node-reported-dead" }, format!("process {child} saw node {vid} as Dead at event {evidx} while its process was running (kill at {kill_ev:?})")), probes);
                    }
                    Some(s) => {
                        probes.push(("verdicts", 1));
                        if victim_gone {
                            after_kill_states.push(if s == "Dead" { "Dead" } else if s == "Alive" { "Alive" } else { "Other" });
                        }
                    }
                    None => {
                        if victim_gone {
                            after_kill_states.push("Absent");
                        }
                    }
                }
            }
            if let Some(rest) = text.strip_prefix("cleanup ") {
                if rest.starts_with(&vid) {
                    let victim_running = match kill_ev {
                        None => *evidx < last_victim_ev,
                        Some(k) => *evidx < k,
                    };
                    if victim_running && (rest.ends_with(" ok")) {
                        return (viol("live-node-cleaned", format!("process {child} removed the resources of node {vid} at event {evidx} while its process was running")), probes);
                    }
                    if rest.ends_with(" ok") {
                        cleanup_ok += 1;
                    }
                    if rest.contains(" error ") {
                        probes.push(("cleanup_errors", 1));
                    }
                }
            }
        }
        if kill_ev.is_some() {
            probes.push(("victim_killed", 1));
            // after the kill the monitors' last verdict must not be Alive (they look several times, with time passing)
            if after_kill_states.len() >= 2 && after_kill_states.last() == Some(&"Alive") {
                return (viol("dead-node-reported-alive", format!("after process {victim} was killed node {vid} is still reported Alive by the last of {} queries ({:?})", after_kill_states.len(), after_kill_states)), probes);
            }
            if cleanup_ok > 1 {
                return (viol("cleanup-not-exclusive", format!("{cleanup_ok} processes report a successful cleanup of the dead node {vid}")), probes);
            }
            if cleanup_ok == 1 {
                probes.push(("exclusive_cleanup", 1));
            }
        }
        (None, probes)
    }

    fn judge_c06(&self, _plan: &Plan, run: &ProcRun, owner_pid: i32) -> (Option<Violation>, Vec<(&'static str, u64)>) {
        let mut probes: Vec<(&'static str, u64)> = Vec::new();
        // handles: (process, kind, cfg, certainly-alive interval [start, end) in event indices)
        struct H {
            proc_: usize,
            kind: String,
            cfg: String,
            start: usize,
            end: usize,
            req: (i64, i64, i64),
        }
        let mut handles: Vec<H> = Vec::new();
        let mut open_calls: Vec<(usize, usize, usize, String, (i64, i64, i64), String)> = Vec::new(); // (proc, inv, ret, kind, req, result)
        for pi in 0..run.yields_per_child.len() {
            let mut cur: Option<usize> = None;
            let mut last_phase: Option<(usize, String, (i64, i64, i64))> = None;
            for (c, t, e) in run.obs.iter().filter(|o| o.0 == pi) {
                let _ = c;
                if let Some(rest) = t.strip_prefix("phase ") {
                    let mut it = rest.split(' ');
                    let opi: usize = it.next().and_then(|x| x.parse().ok()).unwrap_or(0);
                    let name = it.next().unwrap_or("").to_string();
                    if name == "create" || name == "open" || name == "ooc" {
                        let a = _plan.threads[pi].get(opi).map(|o| (o.arg(0), o.arg(1), o.arg(2))).unwrap_or((0, 0, 0));
                        last_phase = Some((*e, name, a));
                    }
                } else if let Some(rest) = t.strip_prefix("svc_ok ") {
                    let mut it = rest.split(' ');
                    let kind = it.next().unwrap_or("").to_string();
                    let cfg = it.next().unwrap_or("").to_string();
                    let (inv, _, req) = last_phase.clone().unwrap_or((*e, kind.clone(), (0, 0, 0)));
                    open_calls.push((pi, inv, *e, kind.clone(), req, format!("ok {cfg}")));
                    handles.push(H { proc_: pi, kind, cfg, start: *e, end: usize::MAX, req });
                    cur = Some(handles.len() - 1);
                    probes.push(("service_handles", 1));
                } else if let Some(rest) = t.strip_prefix("svc_err ") {
                    let mut it = rest.splitn(2, ' ');
                    let kind = it.next().unwrap_or("").to_string();
                    let err = it.next().unwrap_or("").to_string();
                    let (inv, _, req) = last_phase.clone().unwrap_or((*e, kind.clone(), (0, 0, 0)));
                    open_calls.push((pi, inv, *e, kind, req, format!("err {err}")));
                    probes.push(("service_call_errors", 1));
                } else if t == "svc_dropping" {
                    if let Some(h) = cur.take() {
                        handles[h].end = *e;
                    }
                } else if t.starts_with("svc_unusable") {
                    return (viol("half-initialised", format!("process {pi} obtained a service handle on which a port could not be created at once: {t}")), probes);
                }
            }
        }
        let overlap = |a: &H, b: &H| a.start < b.end && b.start < a.end;
        // signature of a known finding: a process that is still dropping the previous instance of the service
        // removes (by name) the static config file that another process has re-created in the meantime
        let mut late_remove = false;
        for (a, ea) in run.events.iter().enumerate() {
            if ea.kind == "open-create" && ea.detail.ends_with(".service") {
                for eb in run.events.iter().skip(a + 1) {
                    if eb.kind == "remove" && eb.detail == ea.detail {
                        if eb.child != ea.child {
                            late_remove = true;
                        }
                        break; // the first removal after this creation decides
                    }
                }
            }
        }
        // (1) all certainly-overlapping handles belong to one creation: same complete settings
        for i in 0..handles.len() {
            for j in i + 1..handles.len() {
                if overlap(&handles[i], &handles[j]) && handles[i].cfg != handles[j].cfg {
                    return (viol(if late_remove { "divergent-settings-after-late-remove" } else { "divergent-settings" }, format!("processes {} and {} hold the service at the same time with different settings ({} vs {})", handles[i].proc_, handles[j].proc_, handles[i].cfg, handles[j].cfg)), probes);
                }
            }
        }
        // (2) a successful create never overlaps another live handle that started earlier
        for i in 0..handles.len() {
            if handles[i].kind == "create" {
                let want = format!("cfg={},{},{}", handles[i].req.0, handles[i].req.1, handles[i].req.2);
                if handles[i].cfg != want {
                    return (viol("creator-settings", format!("process {} created the service with {:?} but its handle reports {}", handles[i].proc_, handles[i].req, handles[i].cfg)), probes);
                }
                for j in 0..handles.len() {
                    if i != j && overlap(&handles[i], &handles[j]) && handles[j].start < handles[i].start {
                        // j was alive during the whole create call of i if it started before the call was invoked
                        let inv = open_calls.iter().find(|c| c.0 == handles[i].proc_ && c.2 == handles[i].start).map(|c| c.1).unwrap_or(handles[i].start);
                        if handles[j].start < inv {
                            return (viol("two-creators", format!("process {} created the service although process {} held it during the whole call", handles[i].proc_, handles[j].proc_)), probes);
                        }
                    }
                }
            }
        }
        // (3) an open whose requirement cannot be met by the service that is alive during the whole call must fail
        for (pi, inv, ret, kind, req, res) in open_calls.iter() {
            if kind != "open" && kind != "ooc" {
                continue;
            }
            for h in handles.iter() {
                if h.proc_ != *pi && h.start < *inv && h.end > *ret {
                    // the service with h.cfg existed during the whole call
                    let cfg: Vec<i64> = h.cfg.trim_start_matches("cfg=").split(',').filter_map(|x| x.parse().ok()).collect();
                    if cfg.len() == 3 {
                        let compatible = cfg[0] >= req.0 && cfg[1] >= req.1 && cfg[2] >= req.2;
                        if !compatible && res.starts_with("ok") {
                            return (viol("incompatible-open-accepted", format!("process {pi} opened the service (settings {:?}) with the incompatible requirement {:?}", cfg, req)), probes);
                        }
                        if compatible && res.starts_with("err") && !res.contains("ExceedsMaxNumberOfNodes") {
                            return (viol(if late_remove { "compatible-open-refused-after-late-remove" } else { "compatible-open-refused" }, format!("process {pi} could not {kind} the service (settings {:?}, alive during the whole call) with the compatible requirement {:?}: {res}", cfg, req)), probes);
                        }
                        if !compatible {
                            probes.push(("incompatible_open_refused", 1));
                        }
                    }
                }
            }
            if res.contains("HangsInCreation") || res.contains("ServiceInCorruptedState") || res.contains("InternalFailure") {
                return (viol("undocumented-outcome", format!("process {pi}: {kind} with {:?} ended with {res} although nobody crashed", req)), probes);
            }
        }
        // (4) after the last user is gone the service's resources are gone
        let left = leftovers("pr", owner_pid);
        let svc_left: Vec<&String> = left.iter().filter(|p| p.ends_with(".service") || p.ends_with(".dynamic")).collect();
        if !svc_left.is_empty() {
            return (viol("service-leftover", format!("all users dropped the service but its resources remain: {svc_left:?}")), probes);
        }
        (None, probes)
    }

    fn judge_c04(&self, plan: &Plan, run: &ProcRun, owner_pid: i32) -> (Option<Violation>, Vec<(&'static str, u64)>) {
        let mut probes: Vec<(&'static str, u64)> = Vec::new();
        let victim = plan.p("victim") as usize;
        let killed = run.killed.iter().any(|k| k.0 == victim);
        if !killed {
            return (None, vec![("victim_finished_before_kill_point", 1)]);
        }
        probes.push(("victim_killed", 1));
        if let Some(k) = run.killed.iter().find(|k| k.0 == victim) {
            let name: &'static str = Box::leak(format!("killed_at_{}", k.2).into_boxed_str());
            probes.push((name, 1));
        }
        let vid = node_id_of(run, victim);
        let kill_ev = run.events.iter().rposition(|e| e.child == victim).unwrap_or(0);
        // second dead process (the cleaner of the cleaner-death scenario)
        let cleaner_killed: Option<usize> = run.killed.iter().find(|k| k.0 != victim).map(|k| k.0);
        if plan.p("cleaner") > 0 {
            match run.killed.iter().find(|k| k.0 != victim) {
                Some(k) => {
                    probes.push(("cleaner_killed_inside_cleanup", 1));
                    let name: &'static str = Box::leak(format!("cleaner_killed_at_{}", k.2).into_boxed_str());
                    probes.push((name, 1));
                }
                None => probes.push(("cleaner_finished_before_its_kill_point", 1)),
            }
        }
        let vid2 = cleaner_killed.and_then(|c| node_id_of(run, c));
        // the lifecycle operation the victim was executing when it was killed
        let phase: String = run.obs.iter().filter(|o| o.0 == victim && o.1.starts_with("phase ")).last().map(|o| o.1.split(' ').nth(2).unwrap_or("?").to_string()).unwrap_or_else(|| "start".into());
        let suffix = if cleaner_killed.is_some() { "+cleaner-killed" } else { "" };
        let vk = |class: &str, msg: String| -> Option<Violation> { viol(&format!("{class}@{phase}{suffix}"), msg) };
        // errors of a survivor count once the dead node has been cleaned up (before that HangsInCreation,
        // DoesNotExist, ... are the documented answers to a half created or half removed service)
        let first_cleanup_done: usize = run.obs.iter().filter(|o| o.0 != victim && o.2 > kill_ev && (o.1.ends_with(" ok") || o.1.ends_with(" already")) && o.1.starts_with("cleanup ")).map(|o| o.2).min().unwrap_or(usize::MAX);
        // survivors' observations after the kill
        let mut cleanup_seen_ok = false;
        let mut last_list: Option<String> = None;
        for (child, text, evidx) in run.obs.iter() {
            if *child == victim || *evidx <= kill_ev || Some(*child) == cleaner_killed {
                continue;
            }
            if text.starts_with("list ") {
                last_list = Some(text.clone());
            }
            let always = text.starts_with("list_error") || text.starts_with("node_error");
            let after_cleanup = *evidx > first_cleanup_done && (text.starts_with("service_error") || text.starts_with("port_error") || text.starts_with("send_error") || text.starts_with("receive_error"));
            if always || after_cleanup {
                return (vk("survivor-error", format!("survivor {child} after the crash of process {victim} (killed at its yield {:?}): {text}", run.killed)), probes);
            }
            if let Some(rest) = text.strip_prefix("cleanup ") {
                if rest.ends_with(" ok") || rest.ends_with(" already") {
                    cleanup_seen_ok = true;
                }
                if rest.contains(" error ") {
                    return (vk("cleanup-failed", format!("survivor {child} could not remove the stale resources: {text} (victim killed at {:?})", run.killed)), probes);
                }
            }
            if text.starts_with("received false") {
                return (vk("corrupt-data", format!("survivor {child} received corrupted data after the crash: {text}")), probes);
            }
        }
        // the dead node must not be reported alive at the end
        if let (Some(vid), Some(l)) = (&vid, &last_list) {
            if l.contains(&format!("{vid}:Alive")) {
                return (vk("dead-node-reported-alive", format!("the last node list of the survivors still shows the killed node {vid} as Alive: {l}")), probes);
            }
            if l.contains(&format!("{vid}:Dead")) && cleanup_seen_ok {
                return (vk("cleanup-incomplete", format!("cleanup reported success but the killed node {vid} is still listed as Dead: {l}")), probes);
            }
        }
        if let (Some(v2), Some(l)) = (&vid2, &last_list) {
            if l.contains(&format!("{v2}:Alive")) {
                return (vk("dead-node-reported-alive", format!("the last node list of the survivor still shows the killed cleaner's node {v2} as Alive: {l}")), probes);
            }
            if l.contains(&format!("{v2}:Dead")) && cleanup_seen_ok {
                return (vk("cleanup-incomplete", format!("cleanup reported success but the killed cleaner's node {v2} is still listed as Dead: {l}")), probes);
            }
        }
        // the shared service is usable: the survivor's final round trip
        let alive = |c: usize| c != victim && Some(c) != cleaner_killed;
        let sent_ok = run.obs.iter().any(|(c, t, e)| alive(*c) && *e > first_cleanup_done.min(usize::MAX - 1) && t.starts_with("sent "));
        let recv_ok = run.obs.iter().any(|(c, t, e)| alive(*c) && *e > kill_ev && t.starts_with("received true"));
        if plan.p("roundtrip") != 0 && sent_ok && !recv_ok {
            return (vk("service-unusable", "after the crash and cleanup a survivor's fresh subscriber received nothing from a survivor's publisher".into()), probes);
        }
        if cleanup_seen_ok {
            // only meaningful when that survivor had really dropped everything before (the minimiser may drop ops)
            let dropped_before = |c: usize, at: usize| {
                let last_drop = run.obs.iter().filter(|(cc, t, e)| *cc == c && *e <= at && t == "dropped").map(|o| o.2).max();
                let last_open = run.obs.iter().filter(|(cc, t, e)| *cc == c && *e <= at && (t == "service_ok" || t.starts_with("port_ok"))).map(|o| o.2).max();
                matches!((last_drop, last_open), (Some(d), Some(o)) if d >= o) || (last_drop.is_some() && last_open.is_none())
            };
            let others_gone = |at: usize| (0..run.yields_per_child.len()).all(|c| c == victim || dropped_before(c, at) || !run.obs.iter().any(|(cc, t, _)| *cc == c && t == "service_ok"));
            if let Some((c, t, _)) = run.obs.iter().find(|(c, t, e)| *c != victim && *e > kill_ev && t.starts_with("recreate_error") && dropped_before(*c, *e) && others_gone(*e)) {
                return (vk("service-outlives-last-user", format!("after cleanup of the killed process and after survivor {c} dropped everything the service name cannot be created afresh: {t}")), probes);
            }
            if run.obs.iter().any(|(c, t, e)| *c != victim && *e > kill_ev && t.starts_with("recreate_ok")) {
                probes.push(("name_recreated_after_last_user_left", 1));
            }
        }
        // leftovers: files that only the victim created and nobody else touched must be gone after cleanup
        if cleanup_seen_ok || vid.is_none() {
            let mut created_by_victim: Vec<String> = Vec::new();
            for e in run.events.iter() {
                if e.child == victim && (e.kind == "open-create" || e.kind == "shm_open-create" || e.kind == "mkdir") && !e.detail.is_empty() {
                    created_by_victim.push(e.detail.clone());
                }
            }
            // "others" are the processes that are still alive: what a killed cleaner touched is as orphaned as
            // what the victim created
            let touched_by_others: Vec<&String> = run.events.iter().filter(|e| e.child != victim && Some(e.child) != cleaner_killed && !e.detail.is_empty() && (e.kind.starts_with("open") || e.kind.starts_with("shm_open"))).map(|e| &e.detail).collect();
            let left = leftovers("pr", owner_pid);
            let mut bad = Vec::new();
            for c in created_by_victim.iter() {
                if touched_by_others.iter().any(|t| *t == c) {
                    continue; // shared with a survivor: not solely the victim's
                }
                let shm = format!("/dev/shm{}", if c.starts_with('/') { c.clone() } else { format!("/{c}") });
                let exists = left.iter().any(|l| l == c || *l == shm);
                let is_domain_wide = c.contains("global_mgmt") || c.ends_with("/nodes") || c.ends_with("/services") || c.ends_with("/nodes/") || c.ends_with("/services/");
                let is_dir = std::path::Path::new(c).is_dir();
                if exists && !is_domain_wide && !is_dir {
                    bad.push(c.clone());
                }
            }
            if !bad.is_empty() && vid.is_some() {
                return (vk("leftover", format!("after the cleanup of the killed process {victim} (killed at {:?}) resources that only it created remain: {bad:?}", run.killed)), probes);
            }
            if !bad.is_empty() {
                probes.push(("leftover_before_node_existed", 1));
            }
        }
        (None, probes)
    }
}

impl Harness for ProcHarness {
    fn name(&self) -> &'static str {
        match self.kind {
            "c07" => "c07.node_liveness",
            "c06" => "c06.service_creation",
            _ => "c04.crash_cleanup",
        }
    }
    fn property(&self) -> &'static str {
        match self.kind {
            "c07" => "C07",
            "c06" => "C06",
            _ => "C04",
        }
    }
    fn modes(&self) -> Vec<(&'static str, u32, bool)> {
        vec![("proc", 1, true)]
    }
    fn quick_runs(&self) -> u64 {
        700
    }
    fn isolate(&self) -> bool {
        true
    }
    fn components(&self) -> Value {
        json!({"real": ["whole iceoryx2 stack (ipc variant) in separate processes", "kernel: files, POSIX shm, fcntl locks, SIGKILL, different mappings per process"], "stub": ["clock (virtual, per-controller)", "pid (virtual per child)", "the choice of which process proceeds at each system call / shared-memory atomic operation"]})
    }
    fn generate(&self, r: &mut sim::rng::Rng, mode: &str) -> (Plan, CfgSer) {
        let mut params = BTreeMap::new();
        let mut threads = Vec::new();
        if self.kind == "c06" {
            // 2..4 processes create / open / open_or_create / drop the same service name with their own settings
            let np = r.range(2, 4);
            for _ in 0..np {
                let mut v = vec![Op::new("node", &[0])];
                for _ in 0..r.range(1, 4) {
                    let (mp, ms, h) = (r.range(2, 3), r.range(2, 3), r.range(0, 1));
                    let k = r.below(10);
                    v.push(Op::new(if k < 3 { "create" } else if k < 6 { "open" } else { "ooc" }, &[mp, ms, h]));
                    if r.chance(0.6) {
                        v.push(Op::new("hold", &[r.range(0, 3)]));
                    }
                    if r.chance(0.7) {
                        v.push(Op::new("dropsvc", &[]));
                    }
                }
                threads.push(v);
            }
            params.insert("victim".into(), 99);
            params.insert("kill".into(), 0);
        } else if self.kind == "c07" {
            // P0 victim: node life cycle; P1..: monitors / cleaners
            let mut v = vec![("node", 0)];
            if r.chance(0.5) {
                v.push(("event", 1));
                v.push(("listener", 0));
            }
            v.push(("hold", r.range(1, 4)));
            v.push(("dropall", 0));
            threads.push(ops(&v));
            let nmon = r.range(1, 3);
            for _ in 0..nmon {
                let mut m = vec![("hold", 0)];
                for _ in 0..r.range(4, 10) {
                    m.push(("list", 0));
                    if r.chance(0.5) {
                        m.push(("cleanup", 0));
                    }
                    m.push(("hold", r.range(0, 3)));
                }
                // look again much later (beyond any creation timeout)
                m.push(("hold", 2000));
                m.push(("list", 0));
                m.push(("cleanup", 0));
                m.push(("hold", 2000));
                m.push(("list", 0));
                threads.push(ops(&m));
            }
            params.insert("victim".into(), 0);
            params.insert("kill".into(), r.chance(0.7) as i64);
        } else if r.chance(0.3) {
            // cleaner death: the victim is killed while it idles (node, service, port exist; the base case that
            // cleans up without residue), a cleaner starts to remove its stale resources and is itself killed
            // at a sampled yield inside that cleanup; the survivor must finish both
            let mut v = vec![("node", 0), ("pubsub", 1)];
            v.push(if r.chance(0.5) { ("publisher", 0) } else { ("subscriber", 0) });
            if r.chance(0.5) {
                v.push(("event", 2));
                v.push(("notifier", 0));
            }
            v.push(("hold", 1));
            v.push(("dropall", 0));
            threads.push(ops(&v));
            let shares = r.chance(0.7);
            let mut s = vec![("node", 0)];
            if shares {
                s.push(("pubsub", 1));
                s.push(("publisher", 0));
                s.push(("send", 0));
            }
            // the survivor races the cleaner for the cleanup in half of the runs (the loser must leave the dead
            // node collectable for whoever comes next, the winner may die)
            if r.chance(0.5) {
                s.push(("hold", 4000));
                s.push(("cleanup", 0));
            }
            s.push(("hold", 9000));
            s.push(("list", 0));
            s.push(("cleanup", 0));
            s.push(("hold", 10));
            s.push(("cleanup", 0));
            s.push(("hold", 3000));
            s.push(("cleanup", 0));
            s.push(("list", 0));
            s.push(("pubsub", 1));
            s.push(("publisher", 0));
            s.push(("subscriber", 0));
            s.push(("send", 0));
            s.push(("recv", 0));
            s.push(("dropall", 0));
            s.push(("node", 0));
            s.push(("recreate", 1));
            threads.push(ops(&s));
            // the cleaner: waits until the victim is long dead, then cleans up
            threads.push(ops(&[("node", 0), ("hold", 4000), ("list", 0), ("cleanup", 0), ("hold", 1), ("dropall", 0)]));
            params.insert("victim".into(), 0);
            params.insert("victim2".into(), 102);
            params.insert("cleaner".into(), 2);
            params.insert("kill2_permille".into(), r.range(0, 999));
            params.insert("kill".into(), 1);
            params.insert("roundtrip".into(), 1);
        } else {
            // P0 victim: one lifecycle segment on a pub/sub (and event) service; P1 survivor sharing the service
            let seg = r.range(0, 4);
            let mut v = vec![("node", 0)];
            if seg >= 1 {
                v.push(("pubsub", 1));
            }
            if seg >= 2 {
                v.push(if r.chance(0.5) { ("publisher", 0) } else { ("subscriber", 0) });
            }
            if seg >= 3 {
                v.push(("send", 0));
                v.push(("recv", 0));
                if r.chance(0.5) {
                    v.push(("event", 2));
                    v.push(("notifier", 0));
                }
            }
            v.push(("hold", 1));
            v.push(("dropall", 0));
            threads.push(ops(&v));
            let shares = r.chance(0.7);
            let mut s = vec![("node", 0)];
            if shares {
                s.push(("pubsub", 1));
                s.push(("publisher", 0));
                s.push(("send", 0));
            }
            s.push(("hold", r.range(1, 5)));
            s.push(("list", 0));
            s.push(("hold", 3000));
            s.push(("list", 0));
            s.push(("cleanup", 0));
            s.push(("hold", 10));
            s.push(("cleanup", 0));
            s.push(("list", 0));
            // the service must be usable (again): fresh ports and a round trip
            s.push(("pubsub", 1));
            s.push(("publisher", 0));
            s.push(("subscriber", 0));
            s.push(("send", 0));
            s.push(("recv", 0));
            // ... and once its last user has left, the service is gone: the name can be created afresh with
            // different settings (a dead node that stayed registered would keep it alive for ever)
            s.push(("dropall", 0));
            s.push(("node", 0));
            s.push(("recreate", 1));
            threads.push(ops(&s));
            params.insert("victim".into(), 0);
            params.insert("kill".into(), 1);
            params.insert("roundtrip".into(), 1);
        }
        // where to kill: resolved against the victim's number of yields in a dry run by the executor
        params.insert("kill_permille".into(), r.range(0, 999));
        params.insert("kill_bias".into(), r.range(0, 2));
        let plan = Plan { harness: self.name().into(), mode: mode.into(), params, threads };
        let mut cfg = CfgSer::base();
        cfg.step_cap = 150_000;
        cfg.sticky = *r.pick(&[0.5, 0.8, 0.95]);
        (plan, cfg)
    }
    fn execute(&self, plan: &Plan, cfg: &CfgSer, dec: Decisions) -> RunResult {
        let owner_pid = unsafe { libc::getpid() };
        remove_leftovers("pr", owner_pid);
        let roles = roles_from_plan(plan);
        let normalise = move |s: &str| s.replace(&format!("p{owner_pid}"), "pX").replace(&format!("vspr{owner_pid}_"), "vsprX_");
        let cm = move |_i: usize, script: &[Op]| child_main(owner_pid, script);
        let mut d = match dec {
            Decisions::Seeded(seed) => {
                let mut d = Decider::seeded(seed);
                d.sticky = cfg.sticky;
                if plan.p("kill") != 0 && plan.p("cleaner") > 0 {
                    let victim = plan.p("victim") as usize;
                    let cleaner = plan.p("cleaner") as usize;
                    // dry run 1 (no kill): the victim's idle point = its last "sleep" yield
                    let mut dry = Decider::seeded(seed);
                    dry.sticky = cfg.sticky;
                    let dry1 = run_proc(&roles, &cm, &mut dry, cfg.step_cap, &normalise);
                    remove_leftovers("pr", owner_pid);
                    let mut vy = 0u64;
                    let mut idle = None;
                    for e in dry1.events.iter() {
                        if e.child == victim {
                            vy += 1;
                            if e.kind == "sleep" {
                                idle = Some(vy);
                            }
                        }
                    }
                    if let Some(k) = idle {
                        d.kill_at.insert(victim, k);
                        // dry run 2 (victim killed): the cleaner's yields inside its cleanup call
                        let mut dry = Decider::seeded(seed);
                        dry.sticky = cfg.sticky;
                        dry.kill_at.insert(victim, k);
                        let dry2 = run_proc(&roles, &cm, &mut dry, cfg.step_cap, &normalise);
                        remove_leftovers("pr", owner_pid);
                        let start = dry2.obs.iter().find(|o| o.0 == cleaner && o.1.starts_with("phase ") && o.1.ends_with(" cleanup")).map(|o| o.2);
                        if let Some(start) = start {
                            let end = dry2.obs.iter().find(|o| o.0 == cleaner && o.2 > start && o.1.starts_with("phase ")).map(|o| o.2).unwrap_or(dry2.events.len());
                            let y = |upto: usize| dry2.events.iter().take(upto + 1).filter(|e| e.child == cleaner).count() as u64;
                            let (ys, ye) = (y(start), y(end));
                            if ye > ys + 1 {
                                let k2 = ys + 1 + (plan.p("kill2_permille") as u64 * (ye - ys - 1)) / 1000;
                                d.kill_at.insert(cleaner, k2);
                            }
                        }
                    }
                } else if plan.p("kill") != 0 {
                    // dry run without kill to learn how many yields the victim has (same seed => same schedule prefix)
                    let mut dry = Decider::seeded(seed);
                    dry.sticky = cfg.sticky;
                    let dry_run = run_proc(&roles, &cm, &mut dry, cfg.step_cap, &normalise);
                    remove_leftovers("pr", owner_pid);
                    let victim = plan.p("victim") as usize;
                    let n = dry_run.yields_per_child.get(victim).cloned().unwrap_or(1).max(1);
                    let pm = plan.p("kill_permille") as u64;
                    let k = match plan.p("kill_bias") {
                        0 => 1 + pm * n / 1000,             // anywhere
                        1 => 1 + (pm % 60).min(n - 1),       // early: inside constructors
                        _ => n - (pm % 60).min(n - 1),       // late: inside destructors
                    };
                    d.kill_at.insert(victim, k.clamp(1, n));
                }
                d
            }
            Decisions::Replay(devs) => Decider::replay(&devs),
        };
        let run = run_proc(&roles, &cm, &mut d, cfg.step_cap, &normalise);
        let (mut violation, mut probes) = match run.outcome {
            ProcOutcome::Ok => {
                match self.kind {
                    "c07" => self.judge_c07(plan, &run),
                    "c06" => self.judge_c06(plan, &run, owner_pid),
                    _ => self.judge_c04(plan, &run, owner_pid),
                }
            }
            _ => (None, vec![]),
        };
        let victim = plan.p("victim") as usize;
        let mut inconclusive = false;
        match &run.outcome {
            ProcOutcome::Ok => {}
            ProcOutcome::StepCap => {
                // bounded liveness: with a fair controller and a virtual clock every scenario ends after a
                // few thousand yields; exhausting the budget means some call never terminates
                let busy: Vec<usize> = (0..run.yields_per_child.len()).filter(|c| run.exit_status[*c].is_none() && !run.killed.iter().any(|k| k.0 == *c)).collect();
                violation = viol("call-does-not-terminate", format!("processes {busy:?} did not finish within {} yield points ({} s of virtual time); kills {:?}", run.events.len(), (run.now_ns - 1_000_000_000) / 1_000_000_000, run.killed));
            }
            ProcOutcome::Hang { child } => {
                violation = viol(if *child == victim { "victim-hang" } else { "survivor-hang" }, format!("process {child} stopped making progress (no yield point for 20 s of real time) after {} events; kills so far {:?}", run.events.len(), run.killed));
            }
            ProcOutcome::ChildDied { child, status } => {
                if *child != victim {
                    violation = viol("survivor-crash", format!("process {child} died with status {status} after {} events; kills so far {:?}", run.events.len(), run.killed));
                } else {
                    inconclusive = true;
                }
            }
        }
        for (c, st) in run.exit_status.iter().enumerate() {
            if c != victim && *st == Some(101) && violation.is_none() {
                violation = viol("survivor-panic", format!("process {c} panicked; kills {:?}", run.killed));
            }
        }
        if std::env::var("VSIM_OBS").is_ok() {
            for (c, t, e) in run.obs.iter() {
                eprintln!("OBS P{c} @{e}: {t}");
            }
            eprintln!("KILLED {:?} outcome {:?}", run.killed, run.outcome);
            if std::env::var("VSIM_EVENTS").is_ok() {
                for (i, e) in run.events.iter().enumerate() {
                    if !e.kind.starts_with("shm-") {
                        eprintln!("EV {i} P{} {} {} {}", e.child, e.kind, e.arg, e.detail);
                    }
                }
            }
        }
        remove_leftovers("pr", owner_pid);
        probes.push(("yield_points", run.events.len() as u64));
        probes.push(("shm_atomic_yields", run.events.iter().filter(|e| e.kind.starts_with("shm-")).count() as u64));
        probes.push(("syscall_yields", run.events.iter().filter(|e| !e.kind.starts_with("shm-") && e.kind != "sleep" && e.kind != "start").count() as u64));
        let tail: Vec<String> = run.events.iter().rev().take(40).rev().map(|e| format!("P{} {} {} {}", e.child, e.kind, e.arg, e.detail)).collect();
        let report = Report {
            outcome: Outcome::Ok,
            fingerprint: run.fingerprint,
            sched_sig: run.fingerprint,
            steps: run.events.len() as u64,
            switches: run.switches,
            stale_reads: 0,
            splits: 0,
            kills: run.killed.len() as u64,
            cas_spurious: 0,
            chooses: 0,
            decisions: run.decisions,
            deviations: run.deviations.clone(),
            sim_time_ns: run.now_ns - 1_000_000_000,
            threads: roles.len(),
            log_tail: tail,
        };
        RunResult { report, violation, beyond: None, probes, inconclusive }
    }
}
