// C14 — shared-memory data structures are position independent (DESIGN.md §4.6, §6.14). E-reloc: every
// relocatable structure is built inside an mmap'ed arena; a seeded history of operations runs on it and on
// an un-relocated twin; at seeded points of the history the arena is copied byte for byte to a fresh
// mapping at another address and the OLD MAPPING IS MADE INACCESSIBLE (mprotect PROT_NONE, never reused),
// after which the history continues on the copy. A stored absolute address is a SIGSEGV of the forked run
// (class process-crash, with the operation and fault address from the crash note) or a divergence from the
// twin (class diverged-after-relocation).
use crate::kit::*;
use iceoryx2_bb_container::flatmap::{FixedSizeFlatMap, RelocatableFlatMap};
use iceoryx2_bb_container::queue::{FixedSizeQueue, RelocatableQueue};
use iceoryx2_bb_container::slotmap::{FixedSizeSlotMap, RelocatableSlotMap, SlotMapKey};
use iceoryx2_bb_container::string::{RelocatableString, String as IoxString};
use iceoryx2_bb_container::vector::{RelocatableVec, Vector};
use iceoryx2_bb_elementary::CallbackProgression;
use iceoryx2_bb_elementary::bump_allocator::BumpAllocator;
use iceoryx2_bb_elementary_traits::allocator::Allocate;
use iceoryx2_bb_elementary_traits::relocatable_container::RelocatableContainer;
use iceoryx2_bb_lock_free::mpmc::bit_set::{FixedSizeBitSet, RelocatableBitSet};
use iceoryx2_bb_lock_free::mpmc::container::{Container, ContainerHandle, ContainerState, FixedSizeContainer};
use iceoryx2_bb_lock_free::mpmc::robust_unique_index_set::{OwnerId, RobustUniqueIndexSet};
use iceoryx2_bb_lock_free::mpmc::unique_index_set::{FixedSizeUniqueIndexSet, UniqueIndexSet};
use iceoryx2_bb_lock_free::mpmc::unique_index_set_enums::ReleaseMode;
use iceoryx2_bb_lock_free::spsc::index_queue::{FixedSizeIndexQueue, RelocatableIndexQueue};
use iceoryx2_bb_lock_free::spsc::safely_overflowing_index_queue::{FixedSizeSafelyOverflowingIndexQueue, RelocatableSafelyOverflowingIndexQueue};
use iceoryx2_cal::shm_allocator::{PointerOffset, ShmAllocator};
use iceoryx2_cal::zero_copy_connection::used_chunk_list::{FixedSizeUsedChunkList, RelocatableUsedChunkList};
use iceoryx2_pal_concurrency_sync::sim::{Decisions, Outcome, rng::Rng};
use serde_json::{Value, json};
use std::alloc::Layout;
use std::collections::BTreeMap;
use std::ptr::NonNull;
use std::sync::{Arc, Mutex};

pub const PAGE: usize = 4096;

/// an anonymous private mapping that can be moved; the old range stays reserved and inaccessible
pub struct Arena {
    pub ptr: *mut u8,
    pub len: usize,
    pub moves: u32,
}
unsafe impl Send for Arena {}
impl Arena {
    pub fn new(len: usize) -> Arena {
        let len = len.next_multiple_of(PAGE).max(PAGE);
        let p = unsafe { libc::mmap(core::ptr::null_mut(), len, libc::PROT_READ | libc::PROT_WRITE, libc::MAP_PRIVATE | libc::MAP_ANONYMOUS, -1, 0) };
        assert!(p != libc::MAP_FAILED, "mmap failed");
        unsafe { core::ptr::write_bytes(p as *mut u8, 0xA5, len) };
        Arena { ptr: p as *mut u8, len, moves: 0 }
    }
    /// copy to a fresh mapping `gap_pages` further away than the kernel would put it, poison the old one
    pub fn relocate(&mut self, gap_pages: usize) {
        // a throw-away reservation in front varies the distance between old and new address
        let total = self.len + gap_pages * PAGE;
        let p = unsafe { libc::mmap(core::ptr::null_mut(), total, libc::PROT_READ | libc::PROT_WRITE, libc::MAP_PRIVATE | libc::MAP_ANONYMOUS, -1, 0) };
        assert!(p != libc::MAP_FAILED, "mmap failed");
        let newp = unsafe { (p as *mut u8).add(gap_pages * PAGE) };
        if gap_pages > 0 {
            unsafe { libc::mprotect(p, gap_pages * PAGE, libc::PROT_NONE) };
        }
        unsafe { core::ptr::copy_nonoverlapping(self.ptr, newp, self.len) };
        // the old bytes are scrambled first (a stale read through a still-mapped alias would otherwise see
        // plausible data), then the range is made inaccessible and stays reserved for the rest of the run
        unsafe { core::ptr::write_bytes(self.ptr, 0xEE, self.len) };
        unsafe { libc::mprotect(self.ptr as *mut libc::c_void, self.len, libc::PROT_NONE) };
        self.ptr = newp;
        self.moves += 1;
    }
}

/// payload range of the shm allocators: reserved, never accessible (the allocators only do arithmetic on it)
fn fake_payload(len: usize) -> *mut u8 {
    let p = unsafe { libc::mmap(core::ptr::null_mut(), len.next_multiple_of(PAGE), libc::PROT_NONE, libc::MAP_PRIVATE | libc::MAP_ANONYMOUS, -1, 0) };
    assert!(p != libc::MAP_FAILED);
    p as *mut u8
}

pub const KINDS: &[&str] = &[
    "vec", "queue", "string", "slotmap", "flatmap", "index_queue", "overflowing_index_queue", "unique_index_set", "robust_unique_index_set", "bit_set", "container", "used_chunk_list",
    "shm_pool_allocator", "shm_bump_allocator", "fixed_queue", "fixed_slotmap", "fixed_flatmap", "fixed_container", "fixed_index_queue", "fixed_overflowing_index_queue", "fixed_bit_set",
    "fixed_unique_index_set", "fixed_used_chunk_list",
];
const FIXED_CAP: usize = 3;
const FIXED_BITS: usize = 11;

/// per-instance state that lives outside the arena (values, never addresses)
#[derive(Default)]
struct Side {
    handles: Vec<Option<ContainerHandle>>,
    state: Option<ContainerState<u64>>,
    held: Vec<u64>,
    allocs: Vec<(u64, usize, usize)>,
    payload: usize,
    payload_len: usize,
}

fn hdr_size(kind: &str) -> usize {
    use core::mem::size_of;
    let s = match kind {
        "vec" => size_of::<RelocatableVec<u64>>(),
        "queue" => size_of::<RelocatableQueue<u64>>(),
        "string" => size_of::<RelocatableString>(),
        "slotmap" => size_of::<RelocatableSlotMap<u64>>(),
        "flatmap" => size_of::<RelocatableFlatMap<u8, u64>>(),
        "index_queue" => size_of::<RelocatableIndexQueue>(),
        "overflowing_index_queue" => size_of::<RelocatableSafelyOverflowingIndexQueue>(),
        "unique_index_set" => size_of::<UniqueIndexSet>(),
        "robust_unique_index_set" => size_of::<RobustUniqueIndexSet>(),
        "bit_set" => size_of::<RelocatableBitSet>(),
        "container" => size_of::<Container<u64>>(),
        "used_chunk_list" => size_of::<RelocatableUsedChunkList>(),
        "shm_pool_allocator" => size_of::<iceoryx2_cal::shm_allocator::pool_allocator::PoolAllocator>(),
        "shm_bump_allocator" => size_of::<iceoryx2_cal::shm_allocator::bump_allocator::BumpAllocator>(),
        "fixed_queue" => size_of::<FixedSizeQueue<u64, FIXED_CAP>>(),
        "fixed_slotmap" => size_of::<FixedSizeSlotMap<u64, FIXED_CAP>>(),
        "fixed_flatmap" => size_of::<FixedSizeFlatMap<u8, u64, FIXED_CAP>>(),
        "fixed_container" => size_of::<FixedSizeContainer<u64, FIXED_CAP>>(),
        "fixed_index_queue" => size_of::<FixedSizeIndexQueue<FIXED_CAP>>(),
        "fixed_overflowing_index_queue" => size_of::<FixedSizeSafelyOverflowingIndexQueue<FIXED_CAP>>(),
        "fixed_bit_set" => size_of::<FixedSizeBitSet<FIXED_BITS>>(),
        "fixed_unique_index_set" => size_of::<FixedSizeUniqueIndexSet<FIXED_CAP>>(),
        "fixed_used_chunk_list" => size_of::<FixedSizeUsedChunkList<FIXED_CAP>>(),
        _ => 64,
    };
    s.next_multiple_of(128)
}

macro_rules! build_reloc {
    ($t:ty, $base:expr, $cap:expr, $alloc:expr) => {{
        let p = $base as *mut $t;
        unsafe {
            core::ptr::write(p, <$t as RelocatableContainer>::new_uninit($cap));
            (*p).init($alloc).map_err(|e| format!("init failed: {e:?}"))
        }
    }};
}

unsafe fn build(kind: &str, base: *mut u8, len: usize, cap: usize, plan: &Plan, side: &mut Side) -> Result<(), String> {
    let h = hdr_size(kind);
    let alloc = BumpAllocator::new(unsafe { NonNull::new_unchecked(base.add(h)) }, len - h);
    match kind {
        "vec" => build_reloc!(RelocatableVec<u64>, base, cap, &alloc),
        "queue" => build_reloc!(RelocatableQueue<u64>, base, cap, &alloc),
        "string" => build_reloc!(RelocatableString, base, cap, &alloc),
        "slotmap" => build_reloc!(RelocatableSlotMap<u64>, base, cap, &alloc),
        "flatmap" => build_reloc!(RelocatableFlatMap<u8, u64>, base, cap, &alloc),
        "index_queue" => build_reloc!(RelocatableIndexQueue, base, cap, &alloc),
        "overflowing_index_queue" => build_reloc!(RelocatableSafelyOverflowingIndexQueue, base, cap, &alloc),
        "unique_index_set" => build_reloc!(UniqueIndexSet, base, cap, &alloc),
        "robust_unique_index_set" => build_reloc!(RobustUniqueIndexSet, base, cap, &alloc),
        "bit_set" => build_reloc!(RelocatableBitSet, base, cap, &alloc),
        "container" => build_reloc!(Container<u64>, base, cap, &alloc),
        "used_chunk_list" => build_reloc!(RelocatableUsedChunkList, base, cap, &alloc),
        "shm_pool_allocator" => {
            use iceoryx2_cal::shm_allocator::pool_allocator::{Config, PoolAllocator};
            let bucket = Layout::from_size_align(plan.p("bucket_size") as usize, plan.p("bucket_align") as usize).map_err(|e| format!("{e:?}"))?;
            let cfg = Config { bucket_layout: bucket };
            let mem = unsafe { NonNull::new_unchecked(core::ptr::slice_from_raw_parts_mut(side.payload as *mut u8, side.payload_len)) };
            let p = base as *mut PoolAllocator;
            unsafe {
                core::ptr::write(p, PoolAllocator::new_uninit(PAGE, mem, &cfg));
                (*p).init(&alloc).map_err(|e| format!("init failed: {e:?}"))
            }
        }
        "shm_bump_allocator" => {
            use iceoryx2_cal::shm_allocator::bump_allocator::{BumpAllocator as ShmBump, Config};
            let mem = unsafe { NonNull::new_unchecked(core::ptr::slice_from_raw_parts_mut(side.payload as *mut u8, side.payload_len)) };
            let p = base as *mut ShmBump;
            unsafe {
                core::ptr::write(p, ShmBump::new_uninit(PAGE, mem, &Config::default()));
                (*p).init(&alloc).map_err(|e| format!("init failed: {e:?}"))
            }
        }
        "fixed_queue" => unsafe { Ok(core::ptr::write(base as *mut FixedSizeQueue<u64, FIXED_CAP>, FixedSizeQueue::new())) },
        "fixed_slotmap" => unsafe { Ok(core::ptr::write(base as *mut FixedSizeSlotMap<u64, FIXED_CAP>, FixedSizeSlotMap::new())) },
        "fixed_flatmap" => unsafe { Ok(core::ptr::write(base as *mut FixedSizeFlatMap<u8, u64, FIXED_CAP>, FixedSizeFlatMap::new())) },
        "fixed_container" => unsafe { Ok(core::ptr::write(base as *mut FixedSizeContainer<u64, FIXED_CAP>, FixedSizeContainer::new())) },
        "fixed_index_queue" => unsafe { Ok(core::ptr::write(base as *mut FixedSizeIndexQueue<FIXED_CAP>, FixedSizeIndexQueue::new())) },
        "fixed_overflowing_index_queue" => unsafe { Ok(core::ptr::write(base as *mut FixedSizeSafelyOverflowingIndexQueue<FIXED_CAP>, FixedSizeSafelyOverflowingIndexQueue::new())) },
        "fixed_bit_set" => unsafe { Ok(core::ptr::write(base as *mut FixedSizeBitSet<FIXED_BITS>, FixedSizeBitSet::new())) },
        "fixed_unique_index_set" => unsafe { Ok(core::ptr::write(base as *mut FixedSizeUniqueIndexSet<FIXED_CAP>, FixedSizeUniqueIndexSet::new())) },
        "fixed_used_chunk_list" => unsafe { Ok(core::ptr::write(base as *mut FixedSizeUsedChunkList<FIXED_CAP>, FixedSizeUsedChunkList::new())) },
        _ => Err(format!("unknown kind {kind}")),
    }
}

macro_rules! queue_ops {
    ($q:expr, $op:expr) => {{
        let q = $q;
        let v = $op.arg(0) as u64;
        #[allow(unused_unsafe)]
        let r = unsafe {
            match $op.c.as_str() {
                "push" => format!("{:?}", q.push(v)),
                "pop" => format!("{:?}", q.pop()),
                "push_overflow" => format!("{:?}", q.push_with_overflow(v)),
                "peek" => format!("{:?}", q.peek()),
                "clear" => {
                    q.clear();
                    "()".to_string()
                }
                _ => String::new(),
            }
        };
        r + &format!(" len={} full={} all={:?}", q.len(), q.is_full(), (0..q.len()).map(|i| q.get(i)).collect::<Vec<u64>>())
    }};
}

macro_rules! slotmap_ops {
    ($m:expr, $op:expr) => {{
        let m = $m;
        let v = $op.arg(0) as u64;
        let k = SlotMapKey::new($op.arg(1) as usize % m.capacity());
        #[allow(unused_unsafe)]
        unsafe {
            let r = match $op.c.as_str() {
                "insert" => format!("{:?}", m.insert(v).map(|k| k.value())),
                "insert_at" => format!("{:?}", m.insert_at(k, v)),
                "remove" => format!("{:?}", m.remove(k)),
                "get" => format!("{:?}", m.get(k)),
                "contains" => format!("{:?}", m.contains(k)),
                "next_free" => format!("{:?}", m.next_free_key().map(|k| k.value())),
                _ => String::new(),
            };
            r + &format!(" len={} full={} all={:?}", m.len(), m.is_full(), m.iter().map(|(k, v)| (k.value(), *v)).collect::<Vec<_>>())
        }
    }};
}

macro_rules! flatmap_ops {
    ($m:expr, $op:expr) => {{
        let m = $m;
        let k = $op.arg(1) as u8;
        let v = $op.arg(0) as u64;
        #[allow(unused_unsafe)]
        unsafe {
            let r = match $op.c.as_str() {
                "insert" => format!("{:?}", m.insert(k, v)),
                "get" => format!("{:?}", m.get(&k)),
                "get_ref" => format!("{:?}", m.get_ref(&k)),
                "remove" => format!("{:?}", m.remove(&k)),
                "contains" => format!("{:?}", m.contains(&k)),
                "bump" => format!("{:?}", m.get_mut_ref(&k).map(|x| { *x += 1; *x })),
                _ => String::new(),
            };
            let mut keys = Vec::new();
            m.list_keys(|k| {
                keys.push(*k);
                CallbackProgression::Continue
            });
            r + &format!(" len={} full={} keys={:?}", m.len(), m.is_full(), keys)
        }
    }};
}

macro_rules! iq_ops {
    ($q:expr, $op:expr) => {{
        let q = $q;
        let v = $op.arg(0) as u64;
        #[allow(unused_unsafe)]
        let r = unsafe {
            match $op.c.as_str() {
                "push" => format!("{:?}", q.push(v)),
                "pop" => format!("{:?}", q.pop()),
                _ => String::new(),
            }
        };
        r + &format!(" len={} empty={} full={}", q.len(), q.is_empty(), q.is_full())
    }};
}

macro_rules! bitset_ops {
    ($b:expr, $op:expr, $cap:expr) => {{
        let b = $b;
        match $op.c.as_str() {
            "set" => format!("{:?}", b.set($op.arg(0) as usize % $cap)),
            "reset_next" => format!("{:?}", b.reset_next()),
            "reset_all" => {
                let mut v = Vec::new();
                b.reset_all(|i| v.push(i));
                format!("{v:?}")
            }
            _ => String::new(),
        }
    }};
}

macro_rules! ucl_ops {
    ($b:expr, $op:expr, $cap:expr) => {{
        let b = $b;
        match $op.c.as_str() {
            "insert" => format!("{:?}", b.insert($op.arg(0) as usize % $cap)),
            "remove" => format!("{:?}", b.remove($op.arg(0) as usize % $cap)),
            "remove_all" => {
                let mut v = Vec::new();
                b.remove_all(|i| v.push(i));
                format!("{v:?}")
            }
            _ => String::new(),
        }
    }};
}

macro_rules! uis_ops {
    ($s:expr, $op:expr, $side:expr) => {{
        let s = $s;
        #[allow(unused_unsafe)]
        let r = unsafe {
            match $op.c.as_str() {
                "acquire" => {
                    let r = s.acquire_raw_index();
                    if let Ok(i) = r {
                        $side.held.push(i as u64);
                    }
                    format!("{r:?}")
                }
                "release" | "release_lock" => {
                    if $side.held.is_empty() {
                        "nothing held".to_string()
                    } else {
                        let i = $side.held.remove($op.arg(0) as usize % $side.held.len());
                        let mode = if $op.c == "release_lock" { ReleaseMode::LockIfLastIndex } else { ReleaseMode::Default };
                        format!("{i} {:?}", s.release_raw_index(i as u32, mode))
                    }
                }
                _ => String::new(),
            }
        };
        r + &format!(" borrowed={} locked={} cap={}", s.borrowed_indices(), s.is_locked(), s.capacity())
    }};
}

macro_rules! container_ops {
    ($c:expr, $op:expr, $side:expr) => {{
        let c = $c;
        let dump = |st: &ContainerState<u64>| {
            let mut v = Vec::new();
            st.for_each(|i, x| {
                v.push((i, *x));
                CallbackProgression::Continue
            });
            v
        };
        #[allow(unused_unsafe)]
        let r = unsafe {
            match $op.c.as_str() {
                "add" => match c.add($op.arg(0) as u64, OwnerId::new(1 + ($op.arg(1) as u64 % 3)).unwrap()) {
                    Ok((_ptr, h)) => {
                        let i = h.index();
                        $side.handles.push(Some(h));
                        format!("Ok({i})")
                    }
                    Err(e) => format!("Err({e:?})"),
                },
                "remove" | "remove_lock" => {
                    let alive: Vec<usize> = (0..$side.handles.len()).filter(|i| $side.handles[*i].is_some()).collect();
                    if alive.is_empty() {
                        "nothing to remove".to_string()
                    } else {
                        let i = alive[$op.arg(0) as usize % alive.len()];
                        let h = $side.handles[i].take().unwrap();
                        let mode = if $op.c == "remove_lock" { ReleaseMode::LockIfLastIndex } else { ReleaseMode::Default };
                        format!("{} {:?}", h.index(), c.remove(h, mode))
                    }
                }
                "get_state" => {
                    let st = c.get_state();
                    let d = dump(&st);
                    $side.state = Some(st);
                    format!("{d:?}")
                }
                "update_state" => match $side.state.as_mut() {
                    Some(st) => {
                        let ch = c.update_state(st);
                        format!("{ch} {:?}", dump(st))
                    }
                    None => "no state".to_string(),
                },
                _ => String::new(),
            }
        };
        r + &format!(" empty={} locked={}", c.is_empty(), c.is_locked())
    }};
}

fn bytes_of(op: &Op) -> Vec<u8> {
    op.a.iter().skip(1).map(|x| *x as u8).collect()
}

unsafe fn apply(kind: &str, base: *mut u8, cap: usize, op: &Op, side: &mut Side) -> String {
    unsafe {
        match kind {
            "vec" => {
                let v = &mut *(base as *mut RelocatableVec<u64>);
                let x = op.arg(0) as u64;
                let i = op.arg(1) as usize;
                let r = match op.c.as_str() {
                    "push" => format!("{:?}", v.push(x)),
                    "pop" => format!("{:?}", v.pop()),
                    "insert" => format!("{:?}", v.insert(i, x)),
                    "remove" => format!("{:?}", if i < v.len() { v.remove(i) } else { None }),
                    "clear" => {
                        v.clear();
                        "()".into()
                    }
                    "truncate" => {
                        v.truncate(i);
                        "()".into()
                    }
                    "resize" => format!("{:?}", v.resize(i, x)),
                    "extend" => format!("{:?}", v.extend_from_slice(&[x, x + 1])),
                    "set" => {
                        if i < v.len() {
                            v[i] = x;
                        }
                        "()".into()
                    }
                    _ => String::new(),
                };
                r + &format!(" len={} cap={} all={:?}", v.len(), v.capacity(), v.as_slice())
            }
            "queue" => queue_ops!(&mut *(base as *mut RelocatableQueue<u64>), op),
            "fixed_queue" => queue_ops!(&mut *(base as *mut FixedSizeQueue<u64, FIXED_CAP>), op),
            "string" => {
                let s = &mut *(base as *mut RelocatableString);
                let b = (op.arg(0) as u8) & 0x7f;
                let i = op.arg(1) as usize;
                let r = match op.c.as_str() {
                    "push" => format!("{:?}", s.push(b)),
                    "pop" => format!("{:?}", s.pop()),
                    "insert" => format!("{:?}", if i <= s.len() { s.insert(i, b) } else { Ok(()) }),
                    "insert_bytes" => format!("{:?}", if i <= s.len() { s.insert_bytes(i, &[b, b ^ 1, b ^ 2]) } else { Ok(()) }),
                    "push_bytes" => format!("{:?}", s.push_bytes(&[b, b ^ 3])),
                    "remove" => format!("{:?}", if i < s.len() { s.remove(i) } else { None }),
                    "remove_range" => format!("{:?}", if i + 2 <= s.len() { s.remove_range(i, 2) } else { false }),
                    "truncate" => {
                        s.truncate(i);
                        "()".into()
                    }
                    "clear" => {
                        s.clear();
                        "()".into()
                    }
                    "find" => format!("{:?} {:?}", s.find(&[b]), s.rfind(&[b])),
                    "strip_prefix" => format!("{:?}", s.strip_prefix(&[b])),
                    "strip_suffix" => format!("{:?}", s.strip_suffix(&[b])),
                    "retain" => {
                        s.retain(|c| c != b);
                        "()".into()
                    }
                    _ => String::new(),
                };
                let with_nul = s.as_bytes_with_nul().to_vec();
                r + &format!(" len={} cap={} bytes={:?} nul={:?}", s.len(), s.capacity(), s.as_bytes(), with_nul.last())
            }
            "slotmap" => slotmap_ops!(&mut *(base as *mut RelocatableSlotMap<u64>), op),
            "fixed_slotmap" => slotmap_ops!(&mut *(base as *mut FixedSizeSlotMap<u64, FIXED_CAP>), op),
            "flatmap" => flatmap_ops!(&mut *(base as *mut RelocatableFlatMap<u8, u64>), op),
            "fixed_flatmap" => flatmap_ops!(&mut *(base as *mut FixedSizeFlatMap<u8, u64, FIXED_CAP>), op),
            "index_queue" => iq_ops!(&*(base as *mut RelocatableIndexQueue), op),
            "fixed_index_queue" => iq_ops!(&*(base as *mut FixedSizeIndexQueue<FIXED_CAP>), op),
            "overflowing_index_queue" => iq_ops!(&*(base as *mut RelocatableSafelyOverflowingIndexQueue), op),
            "fixed_overflowing_index_queue" => iq_ops!(&*(base as *mut FixedSizeSafelyOverflowingIndexQueue<FIXED_CAP>), op),
            "unique_index_set" => uis_ops!(&*(base as *mut UniqueIndexSet), op, side),
            "fixed_unique_index_set" => uis_ops!(&*(base as *mut FixedSizeUniqueIndexSet<FIXED_CAP>), op, side),
            "robust_unique_index_set" => {
                let s = &*(base as *mut RobustUniqueIndexSet);
                let oid = 1 + (op.arg(1) as u64 % 3);
                let owner = OwnerId::new(oid).unwrap();
                let r = match op.c.as_str() {
                    "acquire" => {
                        let r = s.acquire(owner);
                        if let Ok(i) = r {
                            side.held.push((oid << 32) | i as u64);
                        }
                        format!("{r:?}")
                    }
                    "release" | "release_lock" => {
                        if side.held.is_empty() {
                            "nothing held".to_string()
                        } else {
                            let e = side.held.remove(op.arg(0) as usize % side.held.len());
                            let mode = if op.c == "release_lock" { ReleaseMode::LockIfLastIndex } else { ReleaseMode::Default };
                            format!("{} {:?}", e & 0xffff_ffff, s.release((e & 0xffff_ffff) as usize, OwnerId::new(e >> 32).unwrap(), mode))
                        }
                    }
                    "recover" => {
                        let mut rec = Vec::new();
                        let st = s.recover(ReleaseMode::Default, |o, _i| o == owner, |o, i| rec.push((format!("{o:?}"), i)));
                        side.held.retain(|e| e >> 32 != oid);
                        rec.sort();
                        format!("{st:?} {rec:?}")
                    }
                    _ => String::new(),
                };
                r + &format!(" borrowed={} locked={} cap={}", s.borrowed_indices(), s.is_locked(), s.capacity())
            }
            "bit_set" => bitset_ops!(&*(base as *mut RelocatableBitSet), op, cap),
            "fixed_bit_set" => bitset_ops!(&*(base as *mut FixedSizeBitSet<FIXED_BITS>), op, FIXED_BITS),
            "used_chunk_list" => ucl_ops!(&*(base as *mut RelocatableUsedChunkList), op, cap),
            "fixed_used_chunk_list" => ucl_ops!(&mut *(base as *mut FixedSizeUsedChunkList<FIXED_CAP>), op, FIXED_CAP),
            "container" => container_ops!(&*(base as *mut Container<u64>), op, side),
            "fixed_container" => container_ops!(&*(base as *mut FixedSizeContainer<u64, FIXED_CAP>), op, side),
            "shm_pool_allocator" => {
                use iceoryx2_bb_elementary_traits::allocator::Deallocate;
                use iceoryx2_cal::shm_allocator::pool_allocator::PoolAllocator;
                let a = &*(base as *mut PoolAllocator);
                let ia = a.assume_init();
                let r = match op.c.as_str() {
                    "allocate" => {
                        let l = Layout::from_size_align(op.arg(0) as usize, 1usize << (op.arg(1) as u32 % 8)).unwrap();
                        let r: Result<PointerOffset, _> = ia.allocate(l);
                        if let Ok(o) = &r {
                            side.allocs.push((o.as_value(), l.size(), l.align()));
                        }
                        format!("{:?}", r.map(|o| (o.offset(), o.segment_id().value())))
                    }
                    "deallocate" => {
                        if side.allocs.is_empty() {
                            "nothing allocated".into()
                        } else {
                            let (o, s, al) = side.allocs.remove(op.arg(0) as usize % side.allocs.len());
                            ia.deallocate(PointerOffset::from_value(o), Layout::from_size_align(s, al).unwrap());
                            format!("freed {o}")
                        }
                    }
                    _ => String::new(),
                };
                r + &format!(" buckets={} bucket_size={} start={} max_align={}", a.number_of_buckets(), a.bucket_size(), a.relative_start_address(), a.max_alignment())
            }
            "shm_bump_allocator" => {
                use iceoryx2_bb_elementary_traits::allocator::Deallocate;
                use iceoryx2_cal::shm_allocator::bump_allocator::BumpAllocator as ShmBump;
                let a = &*(base as *mut ShmBump);
                let ia = a.assume_init();
                let r = match op.c.as_str() {
                    "allocate" => {
                        let l = Layout::from_size_align(op.arg(0) as usize, 1usize << (op.arg(1) as u32 % 8)).unwrap();
                        let r: Result<PointerOffset, _> = ia.allocate(l);
                        format!("{:?}", r.map(|o| (o.offset(), o.segment_id().value())))
                    }
                    "deallocate" => {
                        ia.deallocate(PointerOffset::new(0), Layout::from_size_align(1, 1).unwrap());
                        "reset".into()
                    }
                    _ => String::new(),
                };
                r + &format!(" total={} start={} max_align={}", a.total_space(), a.relative_start_address(), a.max_alignment())
            }
            _ => String::new(),
        }
    }
}

fn gen_op(kind: &str, r: &mut Rng, cap: usize, next: &mut i64) -> Op {
    *next += 1;
    let v = *next;
    let pick = |r: &mut Rng, names: &[(&str, u32)]| -> String {
        let total: u32 = names.iter().map(|n| n.1).sum();
        let mut k = r.below(total as u64) as u32;
        for n in names {
            if k < n.1 {
                return n.0.to_string();
            }
            k -= n.1;
        }
        names[0].0.to_string()
    };
    let idx = r.range(0, cap as i64 + 1);
    let c = match kind {
        "vec" => pick(r, &[("push", 6), ("pop", 3), ("insert", 3), ("remove", 3), ("clear", 1), ("truncate", 1), ("resize", 1), ("extend", 1), ("set", 2)]),
        "queue" | "fixed_queue" => pick(r, &[("push", 5), ("pop", 4), ("push_overflow", 4), ("peek", 1), ("clear", 1)]),
        "string" => pick(r, &[("push", 6), ("pop", 2), ("insert", 3), ("insert_bytes", 2), ("push_bytes", 2), ("remove", 2), ("remove_range", 1), ("truncate", 1), ("clear", 1), ("find", 1), ("strip_prefix", 1), ("strip_suffix", 1), ("retain", 1)]),
        "slotmap" | "fixed_slotmap" => pick(r, &[("insert", 5), ("insert_at", 2), ("remove", 4), ("get", 1), ("contains", 1), ("next_free", 1)]),
        "flatmap" | "fixed_flatmap" => pick(r, &[("insert", 5), ("get", 1), ("get_ref", 1), ("remove", 4), ("contains", 1), ("bump", 1)]),
        "index_queue" | "fixed_index_queue" | "overflowing_index_queue" | "fixed_overflowing_index_queue" => pick(r, &[("push", 5), ("pop", 4)]),
        "unique_index_set" | "fixed_unique_index_set" => pick(r, &[("acquire", 6), ("release", 5), ("release_lock", 1)]),
        "robust_unique_index_set" => pick(r, &[("acquire", 6), ("release", 4), ("release_lock", 1), ("recover", 1)]),
        "bit_set" | "fixed_bit_set" => pick(r, &[("set", 6), ("reset_next", 3), ("reset_all", 1)]),
        "used_chunk_list" | "fixed_used_chunk_list" => pick(r, &[("insert", 5), ("remove", 4), ("remove_all", 1)]),
        "container" | "fixed_container" => pick(r, &[("add", 5), ("remove", 4), ("remove_lock", 1), ("get_state", 1), ("update_state", 3)]),
        "shm_pool_allocator" | "shm_bump_allocator" => pick(r, &[("allocate", 6), ("deallocate", 3)]),
        _ => "nop".into(),
    };
    match kind {
        "string" => Op::new(&c, &[r.range(1, 127), idx]),
        "flatmap" | "fixed_flatmap" => Op::new(&c, &[v, r.range(0, cap as i64 + 1)]),
        "bit_set" | "fixed_bit_set" | "used_chunk_list" | "fixed_used_chunk_list" => Op::new(&c, &[r.range(0, 40)]),
        "unique_index_set" | "fixed_unique_index_set" => Op::new(&c, &[r.range(0, 7)]),
        "robust_unique_index_set" => Op::new(&c, &[r.range(0, 7), r.range(0, 2)]),
        "container" | "fixed_container" => {
            if c == "add" {
                Op::new(&c, &[v, r.range(0, 2)])
            } else {
                Op::new(&c, &[r.range(0, 7)])
            }
        }
        "shm_pool_allocator" | "shm_bump_allocator" => {
            if c == "allocate" {
                Op::new(&c, &[r.range(0, 80), r.range(0, 7)])
            } else {
                Op::new(&c, &[r.range(0, 7)])
            }
        }
        _ => Op::new(&c, &[v, idx]),
    }
}

fn is_fixed(kind: &str) -> bool {
    kind.starts_with("fixed_")
}

#[derive(Default)]
struct Errs {
    errs: Vec<(String, String)>,
    probes: BTreeMap<&'static str, u64>,
    relocations: u64,
}

fn scenario(plan: &Plan, errs: &Arc<Mutex<Errs>>) {
    let kind = KINDS[plan.p("kind") as usize % KINDS.len()];
    let cap = if is_fixed(kind) { FIXED_CAP } else { plan.p("s_cap").max(1) as usize };
    let len = hdr_size(kind) + 16 * 1024;
    let mut a = Arena::new(len);
    let b = Arena::new(len);
    let (mut sa, mut sb) = (Side::default(), Side::default());
    if kind.starts_with("shm_") {
        // both instances manage the same (inaccessible) payload range: offsets must be identical
        let pl = plan.p("payload_len") as usize;
        let p = fake_payload(pl + PAGE) as usize + plan.p("payload_shift") as usize;
        sa.payload = p;
        sb.payload = p;
        sa.payload_len = pl;
        sb.payload_len = pl;
    }
    crash_note(&format!("building {kind} (capacity {cap})"));
    let ra = unsafe { build(kind, a.ptr, a.len, cap, plan, &mut sa) };
    let rb = unsafe { build(kind, b.ptr, b.len, cap, plan, &mut sb) };
    if ra != rb {
        errs.lock().unwrap().errs.push(("setup".into(), format!("construction of {kind} differs between two arenas: {ra:?} vs {rb:?}")));
        return;
    }
    if ra.is_err() {
        // e.g. a bucket layout the segment cannot hold: nothing to compare (both refused identically)
        errs.lock().unwrap().probes.insert("construction_refused", 1);
        return;
    }
    if plan.p("move_before_first_use") != 0 {
        a.relocate(plan.p("gap") as usize);
        errs.lock().unwrap().relocations += 1;
    }
    for (i, op) in plan.threads[0].iter().enumerate() {
        if op.c == "reloc" {
            crash_note(&format!("relocating the arena of {kind} before op #{i}"));
            a.relocate(op.arg(0) as usize);
            let mut e = errs.lock().unwrap();
            e.relocations += 1;
            continue;
        }
        crash_note(&format!("op #{i} {}{:?} on the relocated {kind} (capacity {cap}, {} relocations so far, arena now at {:p})", op.c, op.a, a.moves, a.ptr));
        let oa = unsafe { apply(kind, a.ptr, cap, op, &mut sa) };
        crash_note(&format!("op #{i} {}{:?} on the un-relocated twin of {kind}", op.c, op.a));
        let ob = unsafe { apply(kind, b.ptr, cap, op, &mut sb) };
        if oa != ob {
            let mut e = errs.lock().unwrap();
            let class = if a.moves > 0 { "diverged-after-relocation" } else { "twin-diverged-without-relocation" };
            e.errs.push((class.into(), format!("{kind} (capacity {cap}): op #{i} {}{:?} after {} relocations returned `{oa}` on the relocated instance but `{ob}` on the twin that never moved", op.c, op.a, a.moves)));
            return;
        }
        if a.moves > 0 {
            let mut e = errs.lock().unwrap();
            *e.probes.entry("ops_after_relocation").or_default() += 1;
        }
    }
    crash_note("");
}

/// a short text the parent can read if the forked run dies (kit::execute appends it to the crash message)
fn crash_note(s: &str) {
    crate::kit::crashnote::set(s);
}

pub struct RelocHarness;
impl Harness for RelocHarness {
    fn name(&self) -> &'static str {
        "c14.relocation"
    }
    fn property(&self) -> &'static str {
        "C14"
    }
    fn modes(&self) -> Vec<(&'static str, u32, bool)> {
        vec![("reloc", 1, true)]
    }
    fn quick_runs(&self) -> u64 {
        12_000
    }
    fn isolate(&self) -> bool {
        true
    }
    fn components(&self) -> Value {
        json!({"real": ["RelocatableVec/Queue/String/SlotMap/FlatMap, RelocatableIndexQueue, RelocatableSafelyOverflowingIndexQueue, UniqueIndexSet, RobustUniqueIndexSet, RelocatableBitSet, mpmc Container, RelocatableUsedChunkList, shm PoolAllocator and BumpAllocator (management block), and the FixedSize* flavours of queue, slot map, flat map, container, index queues, bit set, index set, used-chunk list", "RelocatablePointer, BumpAllocator used by init()"], "stub": ["the payload range of the shm allocators is a reserved inaccessible range (the allocators only compute offsets)", "relocation = byte copy to a fresh anonymous mapping + mprotect(PROT_NONE) of the old one, instead of a second process mapping the segment"]})
    }
    fn generate(&self, r: &mut Rng, mode: &str) -> (Plan, CfgSer) {
        let mut params = BTreeMap::new();
        let kind = r.below(KINDS.len() as u64) as i64;
        let kname = KINDS[kind as usize];
        params.insert("kind".into(), kind);
        let cap = match kname {
            "bit_set" | "used_chunk_list" => r.range(1, 20),
            "string" => r.range(1, 12),
            _ => r.range(1, 4),
        };
        params.insert("s_cap".into(), cap);
        params.insert("move_before_first_use".into(), r.chance(0.3) as i64);
        params.insert("gap".into(), r.range(0, 3));
        if kname.starts_with("shm_") {
            let align = 1i64 << r.range(0, 6);
            params.insert("bucket_align".into(), align);
            params.insert("bucket_size".into(), (r.range(1, 5) * align).max(8));
            params.insert("payload_len".into(), r.range(64, 1024));
            params.insert("payload_shift".into(), 8 * r.range(0, 16));
        }
        let mut next = 100;
        let mut ops = Vec::new();
        let n = r.range(4, 40);
        let reloc_p = [0.05, 0.15, 0.4][r.below(3) as usize];
        let ecap = if is_fixed(kname) { FIXED_CAP } else { cap as usize };
        for _ in 0..n {
            if r.chance(reloc_p) {
                ops.push(Op::new("reloc", &[r.range(0, 5)]));
            }
            ops.push(gen_op(kname, r, ecap, &mut next));
        }
        let plan = Plan { harness: self.name().into(), mode: mode.into(), params, threads: vec![ops] };
        let mut cfg = CfgSer::base();
        cfg.step_cap = 2_000_000;
        (plan, cfg)
    }
    fn execute(&self, plan: &Plan, cfg: &CfgSer, dec: Decisions) -> RunResult {
        let errs = Arc::new(Mutex::new(Errs::default()));
        let e2 = errs.clone();
        let plan2 = plan.clone();
        crate::kit::crashnote::install_segv_reporter();
        let mut report = sim_run(cfg.to_cfg(), dec, move || scenario(&plan2, &e2));
        #[allow(unused_mut)]
        let mut g = take_after_run(&errs);
        let mut violation = g.errs.first().map(|(c, m)| Violation { class: c.clone(), msg: m.clone() });
        let mut inconclusive = false;
        if violation.is_none() {
            match &report.outcome {
                Outcome::Ok => {}
                Outcome::StepCap => inconclusive = true,
                Outcome::Deadlock { blocked } => violation = viol("blocked", format!("an operation blocked for ever (threads {blocked:?})")),
                Outcome::Panic { thread, msg } => violation = viol("panic", format!("thread {thread} panicked after {} relocations: {}", g.relocations, &msg[..msg.len().min(300)])),
            }
        }
        report.chooses = g.relocations;
        report.sched_sig = hash_str(&serde_json::to_string(plan).unwrap());
        let mut probes: Vec<(&'static str, u64)> = g.probes.iter().map(|(k, v)| (*k, *v)).collect();
        probes.push(("relocations", g.relocations));
        RunResult { report, violation, beyond: None, probes, inconclusive }
    }
}
