// Zero-copy connection harnesses over process-local storage:
//   c03.zero_copy_connection   — data path: no offset lost or duplicated, release never fails (DESIGN §6.3)
//   c13.connection_lifecycle   — attach/detach/forced-remove state machine (DESIGN §6.13)
use crate::kit::*;
use iceoryx2_bb_container::semantic_string::SemanticString;
use iceoryx2_bb_elementary_traits::testing::abandonable::Abandonable;
use iceoryx2_bb_system_types::file_name::FileName;
use iceoryx2_cal::named_concept::{NamedConceptBuilder, NamedConceptMgmt};
use iceoryx2_cal::shm_allocator::pointer_offset::PointerOffset;
use iceoryx2_cal::zero_copy_connection::process_local::Connection;
use iceoryx2_cal::zero_copy_connection::*;
use iceoryx2_pal_concurrency_sync::sim::{self, Decisions, Outcome, rng::Rng};
use serde_json::{Value, json};
use std::collections::BTreeMap;
use std::sync::{Arc, Mutex};

type Sender = <Connection as ZeroCopyConnection>::Sender;
type Receiver = <Connection as ZeroCopyConnection>::Receiver;
const SAMPLE: usize = 8;
const CH: ChannelId = ChannelId::new(0);
static UNIQ: std::sync::atomic::AtomicU64 = std::sync::atomic::AtomicU64::new(0);

/// lazily initialised process-wide state (storage registry, its mutex) must not be initialised inside
/// a simulation: the first run of a process would otherwise differ from all later ones
fn warm_up() {
    static ONCE: std::sync::Once = std::sync::Once::new();
    ONCE.call_once(|| {
        let name = conn_name("warm");
        let s = builder(&name, 1, 1, false, 4).create_sender();
        let r = builder(&name, 1, 1, false, 4).create_receiver();
        let _ = Connection::does_exist(&name);
        drop(s);
        drop(r);
    });
}

fn conn_name(tag: &str) -> FileName {
    let u = UNIQ.fetch_add(1, std::sync::atomic::Ordering::Relaxed);
    FileName::new(format!("vsim_{tag}_{}_{}", std::process::id(), u).as_bytes()).unwrap()
}

fn builder(name: &FileName, buf: usize, borrow: usize, overflow: bool, samples: usize) -> <Connection as ZeroCopyConnection>::Builder {
    <Connection as ZeroCopyConnection>::Builder::new(name)
        .buffer_size(buf)
        .receiver_max_borrowed_chunks_per_channel(borrow)
        .enable_safe_overflow(overflow)
        .number_of_chunks_per_segment(samples)
        .initial_channel_state(CHANNEL_STATE_OPEN)
}

// =======================================================================================
// data path

#[derive(Clone, Copy, PartialEq, Debug)]
enum Place {
    Pool,
    InFlight,
    Held,
    Returned,
}

#[derive(Default)]
struct DShared {
    place: Vec<Option<Place>>, // per offset index
    sent_order: Vec<usize>,    // indices in flight, in send order
    send_token: BTreeMap<usize, [u32; 8]>,
    release_token: BTreeMap<usize, [u32; 8]>,
    returned_order: Vec<usize>,
    errs: Vec<(String, String)>,
    probes: BTreeMap<&'static str, u64>,
}
impl DShared {
    fn err(&mut self, c: &str, m: String) {
        if self.errs.len() < 4 {
            self.errs.push((c.into(), m));
        }
    }
    fn probe(&mut self, k: &'static str) {
        *self.probes.entry(k).or_default() += 1;
    }
}

fn idx_of(p: PointerOffset) -> usize {
    p.offset() / SAMPLE
}

fn d_send(s: &Sender, sh: &Arc<Mutex<DShared>>, overflow: bool, weak: bool) {
    // usage protocol of the connection (what iceoryx2's Sender does in retrieve_returned_samples before every
    // delivery): the sender empties the completion queue before it sends. The queue is dimensioned
    // (buffer + borrow + 1) for exactly that protocol; a sender that keeps sending fresh offsets without ever
    // reclaiming can legitimately make a later release fail with RetrieveBufferFull.
    while d_reclaim(s, sh) {}
    // take any offset from the pool
    let i = {
        let g = sh.lock().unwrap();
        match g.place.iter().position(|p| *p == Some(Place::Pool)) {
            Some(i) => i,
            None => return,
        }
    };
    {
        let (_, clk) = sim::mark();
        let mut g = sh.lock().unwrap();
        g.place[i] = Some(Place::InFlight);
        g.sent_order.push(i);
        g.send_token.insert(i, clk);
    }
    let r = s.try_send(PointerOffset::new(i * SAMPLE), SAMPLE, CH);
    let mut g = sh.lock().unwrap();
    match r {
        Ok(None) => {}
        Ok(Some(e)) => {
            let ei = idx_of(e);
            g.probe("send_evicted_oldest");
            if !overflow {
                g.err("evict", format!("try_send returned an evicted offset {ei} although safe overflow is disabled"));
            }
            match g.place.get(ei).cloned().flatten() {
                Some(Place::InFlight) => {
                    g.place[ei] = Some(Place::Pool);
                    if let Some(pos) = g.sent_order.iter().position(|x| *x == ei) {
                        g.sent_order.remove(pos);
                    }
                }
                other => g.err("duplicate", format!("try_send handed back offset {ei} as evicted, but it is {other:?} (not in flight): an offset exists twice")),
            }
        }
        Err(ZeroCopySendError::ReceiveBufferFull) => {
            g.probe("send_saw_full_buffer");
            if overflow {
                g.err("full", "try_send reported ReceiveBufferFull although safe overflow is enabled".into());
            }
            // nothing was sent
            g.place[i] = Some(Place::Pool);
            if let Some(pos) = g.sent_order.iter().rposition(|x| *x == i) {
                g.sent_order.remove(pos);
            }
        }
        Err(e) => g.err("send-error", format!("try_send failed with {e:?}")),
    }
    let _ = weak;
}

fn d_reclaim(s: &Sender, sh: &Arc<Mutex<DShared>>) -> bool {
    let r = s.reclaim(CH);
    let (_, clk) = sim::mark();
    let mut g = sh.lock().unwrap();
    match r {
        Ok(None) => false,
        Ok(Some(p)) => {
            let i = idx_of(p);
            match g.place.get(i).cloned().flatten() {
                Some(Place::Returned) => {
                    g.place[i] = Some(Place::Pool);
                    if g.returned_order.first() == Some(&i) {
                        g.returned_order.remove(0);
                    } else {
                        let m_ = format!("reclaim returned offset {i} but the release order is {:?}", g.returned_order);
                        g.err("order", m_);
                        if let Some(pos) = g.returned_order.iter().position(|x| *x == i) {
                            g.returned_order.remove(pos);
                        }
                    }
                    if let Some(t) = g.release_token.get(&i).cloned() {
                        if !crate::kit::lin::clock_le(&t, &clk) {
                            g.err("no-happens-before", format!("offset {i} reclaimed without a happens-before edge from its release"));
                        }
                    }
                }
                other => g.err("duplicate", format!("reclaim returned offset {i} which is {other:?} (not released by the receiver): an offset exists twice")),
            }
            true
        }
        Err(e) => {
            g.err("reclaim-error", format!("reclaim failed with {e:?}"));
            false
        }
    }
}

fn d_receive(r: &Receiver, sh: &Arc<Mutex<DShared>>, held: &mut Vec<usize>, borrow: usize) -> bool {
    let res = r.receive(CH);
    let (_, clk) = sim::mark();
    let mut g = sh.lock().unwrap();
    match res {
        Ok(None) => false,
        Ok(Some(p)) => {
            let i = idx_of(p);
            match g.place.get(i).cloned().flatten() {
                Some(Place::InFlight) => {
                    g.place[i] = Some(Place::Held);
                    // FIFO among what is still in flight; an eviction the sender has not been told about yet
                    // may legitimately be ahead of it
                    if let Some(pos) = g.sent_order.iter().position(|x| *x == i) {
                        g.sent_order.remove(pos);
                    }
                    if let Some(t) = g.send_token.get(&i).cloned() {
                        if !crate::kit::lin::clock_le(&t, &clk) {
                            g.err("no-happens-before", format!("offset {i} received without a happens-before edge from its send"));
                        }
                    }
                    held.push(i);
                    if held.len() > borrow {
                        g.err("borrow", format!("receiver holds {} offsets, max borrow is {borrow}", held.len()));
                    }
                }
                other => g.err("duplicate", format!("receive returned offset {i} which is {other:?} (not in flight): an offset exists twice or was invented")),
            }
            true
        }
        Err(ZeroCopyReceiveError::ReceiveWouldExceedMaxBorrowValue) => {
            g.probe("receive_saw_borrow_limit");
            if held.len() < borrow {
                g.err("borrow", format!("receive refused with ReceiveWouldExceedMaxBorrowValue although only {} of {borrow} are borrowed", held.len()));
            }
            false
        }
    }
}

fn d_release(r: &Receiver, sh: &Arc<Mutex<DShared>>, held: &mut Vec<usize>, k: usize) {
    if held.is_empty() {
        return;
    }
    let i = held.remove(k % held.len());
    {
        let (_, clk) = sim::mark();
        let mut g = sh.lock().unwrap();
        g.place[i] = Some(Place::Returned);
        g.returned_order.push(i);
        g.release_token.insert(i, clk);
    }
    if let Err(e) = r.release(PointerOffset::new(i * SAMPLE), CH) {
        sh.lock().unwrap().err("release-failed", format!("release of offset {i} failed with {e:?} although the borrow limit was respected"));
    }
}

/// The same data-path scenario serves two properties: C03 (the connection is a FIFO channel conserving
/// every offset; weak atomics decide) and C02 (a chunk handed to the receiver comes home exactly once and
/// only then; sequentially consistent runs only, the lifetime argument of C02 is not about memory order).
pub struct ConnDataHarness {
    pub prop: &'static str,
}
impl Harness for ConnDataHarness {
    fn name(&self) -> &'static str {
        match self.prop {
            "C02" => "c02.zero_copy_connection",
            "C08" => "c08.zero_copy_connection",
            _ => "c03.zero_copy_connection",
        }
    }
    fn property(&self) -> &'static str {
        self.prop
    }
    fn modes(&self) -> Vec<(&'static str, u32, bool)> {
        if self.prop == "C02" || self.prop == "C08" {
            return vec![("sc", 1, true)];
        }
        vec![("sc", 4, true), ("weak", 5, true)]
    }
    fn quick_runs(&self) -> u64 {
        40_000
    }
    fn components(&self) -> Value {
        json!({"real": ["iceoryx2-cal zero_copy_connection::common (Sender/Receiver, used_chunk_list)", "spsc index queues", "dynamic_storage::process_local"], "stub": ["atomic ordering semantics", "thread scheduler"]})
    }
    fn generate(&self, r: &mut Rng, mode: &str) -> (Plan, CfgSer) {
        let buf = r.range(1, 3);
        let borrow = r.range(1, 3);
        let overflow = r.chance(0.5) as i64;
        let mut s = Vec::new();
        for _ in 0..r.range(2, 9) {
            s.push(if r.chance(0.7) { Op::new("send", &[]) } else { Op::new("reclaim", &[]) });
        }
        let mut rc = Vec::new();
        let mut held = 0;
        // half of the plans: the sender only sends, the receiver strictly alternates receive and release — the
        // shape in which the completion queue is filled to the brim between two reclaims of the sender
        let alternating = r.chance(0.5);
        if alternating {
            s.clear();
            for _ in 0..r.range(3, 7) {
                s.push(Op::new("send", &[]));
            }
            for _ in 0..borrow {
                rc.push(Op::new("recv", &[]));
            }
            for _ in 0..r.range(2, 5) {
                rc.push(Op::new("rel", &[0]));
                rc.push(Op::new("recv", &[]));
            }
            rc.push(Op::new("rel", &[0]));
        }
        for _ in 0..if alternating { 0 } else { r.range(2, 9) } {
            if held > 0 && r.chance(0.45) {
                rc.push(Op::new("rel", &[r.range(0, 2)]));
                held -= 1;
            } else {
                rc.push(Op::new("recv", &[]));
                held += 1;
            }
        }
        let mut params = BTreeMap::new();
        params.insert("buf".into(), buf);
        params.insert("borrow".into(), borrow);
        params.insert("overflow".into(), overflow);
        let plan = Plan { harness: self.name().into(), mode: mode.into(), params, threads: vec![s, rc] };
        let mut cfg = CfgSer::base();
        cfg.step_cap = 12_000;
        cfg.draw_strategy(r, 250);
        if mode == "weak" {
            cfg.weak = true;
            cfg.stale_prob = *r.pick(&[0.1, 0.3, 0.5]);
            cfg.cas_weak_fail_prob = 0.05;
        }
        (plan, cfg)
    }
    fn execute(&self, plan: &Plan, cfg: &CfgSer, dec: Decisions) -> RunResult {
        warm_up();
        let (buf, borrow, overflow) = (plan.p("buf") as usize, plan.p("borrow") as usize, plan.p("overflow") != 0);
        let samples = buf + borrow + 2;
        let name = conn_name("c03zc");
        let sender = builder(&name, buf, borrow, overflow, samples).create_sender().expect("sender");
        let receiver = builder(&name, buf, borrow, overflow, samples).create_receiver().expect("receiver");
        let sh = Arc::new(Mutex::new(DShared::default()));
        sh.lock().unwrap().place = vec![Some(Place::Pool); samples];
        let sh2 = sh.clone();
        let plan2 = plan.clone();
        let weak = cfg.weak;
        let keep: Arc<Mutex<Vec<Box<dyn std::any::Any + Send>>>> = Arc::new(Mutex::new(Vec::new()));
        let keep2 = keep.clone();
        let report = sim_run(cfg.to_cfg(), dec, move || {
            let sh = sh2;
            let (sops, rops) = (plan2.threads[0].clone(), plan2.threads[1].clone());
            let st = {
                let (sh, keep) = (sh.clone(), keep2.clone());
                sim::spawn("S", move || {
                    for o in sops.iter() {
                        match o.c.as_str() {
                            "send" => d_send(&sender, &sh, overflow, weak),
                            _ => {
                                d_reclaim(&sender, &sh);
                            }
                        }
                    }
                    keep.lock().unwrap().push(Box::new(sender));
                })
            };
            let rt = {
                let (sh, keep) = (sh.clone(), keep2.clone());
                sim::spawn("R", move || {
                    let mut held = Vec::new();
                    for o in rops.iter() {
                        match o.c.as_str() {
                            "recv" => {
                                d_receive(&receiver, &sh, &mut held, borrow);
                            }
                            _ => d_release(&receiver, &sh, &mut held, o.arg(0) as usize),
                        }
                    }
                    keep.lock().unwrap().push(Box::new((receiver, held)));
                })
            };
            let _ = st.join();
            let _ = rt.join();
            // sequential epilogue: everything must come home exactly once
            let mut k = keep2.lock().unwrap();
            let mut sender: Option<Box<Sender>> = None;
            let mut recv: Option<Box<(Receiver, Vec<usize>)>> = None;
            while let Some(x) = k.pop() {
                match x.downcast::<Sender>() {
                    Ok(s) => sender = Some(s),
                    Err(x) => {
                        if let Ok(r) = x.downcast::<(Receiver, Vec<usize>)>() {
                            recv = Some(r);
                        }
                    }
                }
            }
            drop(k);
            let (sender, recv) = (sender.unwrap(), recv.unwrap());
            let (receiver, mut held) = *recv;
            let mut rounds = 0;
            loop {
                rounds += 1;
                if rounds > 4 * samples + 8 {
                    sh.lock().unwrap().err("livelock", "sequential drain does not terminate".into());
                    break;
                }
                while !held.is_empty() {
                    d_release(&receiver, &sh, &mut held, 0);
                }
                while d_reclaim(&sender, &sh) {}
                if !d_receive(&receiver, &sh, &mut held, borrow) && held.is_empty() {
                    break;
                }
            }
            {
                let g = sh.lock().unwrap();
                let stray: Vec<(usize, Place)> = g.place.iter().enumerate().filter_map(|(i, p)| p.filter(|p| *p != Place::Pool).map(|p| (i, p))).collect();
                drop(g);
                if !stray.is_empty() && sh.lock().unwrap().errs.is_empty() {
                    sh.lock().unwrap().err("lost", format!("after draining, offsets {stray:?} did not return to the sender: an offset was lost"));
                }
            }
            let mut left = Vec::new();
            unsafe { sender.acquire_used_offsets(|p| left.push(idx_of(p))) };
            if !left.is_empty() {
                sh.lock().unwrap().err("lost", format!("the sender's used-chunk list still contains {left:?} after everything was reclaimed"));
            }
            keep2.lock().unwrap().push(Box::new(*sender));
            keep2.lock().unwrap().push(Box::new(receiver));
        });
        keep.lock().unwrap().clear();
        let g = sh.lock().unwrap();
        let mut violation = None;
        let mut inconclusive = false;
        if let Some((c, m)) = g.errs.first() {
            violation = viol(c, m.clone());
        }
        if violation.is_none() {
            match &report.outcome {
                Outcome::Ok => {}
                Outcome::StepCap => inconclusive = true,
                Outcome::Deadlock { blocked } => violation = viol("deadlock", format!("threads {blocked:?} blocked for ever")),
                Outcome::Panic { thread, msg } => violation = viol("panic", format!("thread {thread} panicked: {msg}")),
            }
        }
        let probes = g.probes.iter().map(|(k, v)| (*k, *v)).collect();
        RunResult { report, violation, beyond: None, probes, inconclusive }
    }
}

// =======================================================================================
// lifecycle

#[derive(Default)]
struct LShared {
    sender_attached: u32,
    receiver_attached: u32,
    /// a dead (abandoned) holder still occupies the role until remove_* is called
    sender_dead: bool,
    receiver_dead: bool,
    errs: Vec<(String, String)>,
    probes: BTreeMap<&'static str, u64>,
}
impl LShared {
    fn err(&mut self, c: &str, m: String) {
        if self.errs.len() < 4 {
            self.errs.push((c.into(), m));
        }
    }
    fn probe(&mut self, k: &'static str) {
        *self.probes.entry(k).or_default() += 1;
    }
}

pub struct ConnLifecycleHarness;
impl Harness for ConnLifecycleHarness {
    fn name(&self) -> &'static str {
        "c13.connection_lifecycle"
    }
    fn property(&self) -> &'static str {
        "C13"
    }
    fn modes(&self) -> Vec<(&'static str, u32, bool)> {
        vec![("sc", 8, true), ("weak", 2, false)]
    }
    fn quick_runs(&self) -> u64 {
        50_000
    }
    fn components(&self) -> Value {
        json!({"real": ["iceoryx2-cal zero_copy_connection::common (create_sender/create_receiver, reserve_port, remove_state, remove_sender/receiver)", "dynamic_storage::process_local (real pthread mutex, blocking turned into simulator waits)"], "stub": ["thread scheduler", "crash of a port = Abandonable::abandon"]})
    }
    fn generate(&self, r: &mut Rng, mode: &str) -> (Plan, CfgSer) {
        let nt = r.range(2, 3);
        let mut threads = Vec::new();
        for _ in 0..nt {
            let mut ops = Vec::new();
            for _ in 0..r.range(2, 6) {
                let mism = if r.chance(0.15) { r.range(1, 3) } else { 0 };
                match r.below(10) {
                    0 | 1 | 2 => ops.push(Op::new("cs", &[mism])),
                    3 | 4 | 5 => ops.push(Op::new("cr", &[mism])),
                    6 => ops.push(Op::new("ds", &[])),
                    7 => ops.push(Op::new("dr", &[])),
                    8 => ops.push(Op::new("crash_s", &[])),
                    _ => ops.push(Op::new("crash_r", &[])),
                }
            }
            threads.push(ops);
        }
        let mut params = BTreeMap::new();
        params.insert("buf".into(), r.range(1, 2));
        params.insert("borrow".into(), r.range(1, 2));
        let plan = Plan { harness: self.name().into(), mode: mode.into(), params, threads };
        let mut cfg = CfgSer::base();
        cfg.step_cap = 30_000;
        cfg.draw_strategy(r, 600);
        if mode == "weak" {
            cfg.weak = true;
            cfg.stale_prob = 0.3;
        }
        (plan, cfg)
    }
    fn execute(&self, plan: &Plan, cfg: &CfgSer, dec: Decisions) -> RunResult {
        warm_up();
        let (buf, borrow) = (plan.p("buf") as usize, plan.p("borrow") as usize);
        let name = conn_name("c13");
        let sh = Arc::new(Mutex::new(LShared::default()));
        let sh2 = sh.clone();
        let plan2 = plan.clone();
        let report = sim_run(cfg.to_cfg(), dec, move || {
            let sh = sh2;
            let mut hs = Vec::new();
            for (t, ops) in plan2.threads.iter().enumerate() {
                let (sh, ops) = (sh.clone(), ops.clone());
                hs.push(sim::spawn(&format!("T{t}"), move || {
                    let mut my_s: Option<Sender> = None;
                    let mut my_r: Option<Receiver> = None;
                    let mk = |mism: i64| -> <Connection as ZeroCopyConnection>::Builder {
                        match mism {
                            1 => builder(&name, buf + 1, borrow, false, 4),
                            2 => builder(&name, buf, borrow + 1, false, 4),
                            3 => builder(&name, buf, borrow, true, 4),
                            _ => builder(&name, buf, borrow, false, 4),
                        }
                    };
                    for o in ops.iter() {
                        match o.c.as_str() {
                            "cs" | "cr" => {
                                let is_s = o.c == "cs";
                                if (is_s && my_s.is_some()) || (!is_s && my_r.is_some()) {
                                    continue;
                                }
                                let mism = o.arg(0);
                                // peers attached when the call starts (they may leave while it runs)
                                let (peer_role_attached_at_start, same_role_attached_at_start) = {
                                    let g = sh.lock().unwrap();
                                    if is_s { (g.receiver_attached > 0 || g.receiver_dead, g.sender_attached > 0 || g.sender_dead) } else { (g.sender_attached > 0 || g.sender_dead, g.receiver_attached > 0 || g.receiver_dead) }
                                };
                                let res: Result<(), ZeroCopyCreationError> = if is_s {
                                    mk(mism).create_sender().map(|s| my_s = Some(s))
                                } else {
                                    mk(mism).create_receiver().map(|r| my_r = Some(r))
                                };
                                let mut g = sh.lock().unwrap();
                                match res {
                                    Ok(()) => {
                                        if is_s {
                                            g.sender_attached += 1;
                                            if g.sender_attached > 1 || g.sender_dead {
                                                g.err("two-attached", "a second sender was attached while one is attached".into());
                                            }
                                        } else {
                                            g.receiver_attached += 1;
                                            if g.receiver_attached > 1 || g.receiver_dead {
                                                g.err("two-attached", "a second receiver was attached while one is attached".into());
                                            }
                                        }
                                        g.probe("attach_ok");
                                    }
                                    Err(ZeroCopyCreationError::AnotherInstanceIsAlreadyConnected) => {
                                        g.probe("attach_refused_already_connected");
                                        // must be justified by a holder of the same role at some point during the call
                                        if !same_role_attached_at_start && { if is_s { g.sender_attached == 0 && !g.sender_dead } else { g.receiver_attached == 0 && !g.receiver_dead } } {
                                            // nobody of that role before or after the call: somebody must have come and gone in between;
                                            // only possible if another thread has attach/detach ops (always true here), so no verdict
                                        }
                                    }
                                    Err(ZeroCopyCreationError::IsBeingCleanedUp) => g.probe("attach_refused_being_cleaned_up"),
                                    Err(ZeroCopyCreationError::InitializationNotYetFinalized) => g.probe("attach_refused_not_finalized"),
                                    Err(e @ (ZeroCopyCreationError::IncompatibleBufferSize | ZeroCopyCreationError::IncompatibleMaxBorrowedSamplesPerChannelSetting | ZeroCopyCreationError::IncompatibleOverflowSetting)) => {
                                        g.probe("attach_refused_mismatch");
                                        if mism == 0 && peer_role_attached_at_start {
                                            // a matching attach may only see a mismatch if the resource was created by a mismatching call
                                            // that is itself being rejected concurrently; no verdict
                                        }
                                        let _ = e;
                                    }
                                    Err(e) => g.err("attach-error", format!("attach failed with undocumented error {e:?}")),
                                }
                            }
                            "ds" => {
                                if let Some(s) = my_s.take() {
                                    sh.lock().unwrap().sender_attached -= 1;
                                    drop(s);
                                }
                            }
                            "dr" => {
                                if let Some(r) = my_r.take() {
                                    sh.lock().unwrap().receiver_attached -= 1;
                                    drop(r);
                                }
                            }
                            "crash_s" => {
                                // the holder dies; later somebody removes the port on its behalf
                                if let Some(s) = my_s.take() {
                                    {
                                        let mut g = sh.lock().unwrap();
                                        g.sender_attached -= 1;
                                        g.sender_dead = true;
                                    }
                                    s.abandon();
                                    let cfg = <Connection as NamedConceptMgmt>::Configuration::default();
                                    sh.lock().unwrap().sender_dead = false;
                                    match unsafe { Connection::remove_sender(&name, &cfg) } {
                                        Ok(()) => sh.lock().unwrap().probe("forced_remove"),
                                        Err(e) => sh.lock().unwrap().err("remove-error", format!("remove_sender for the dead sender failed with {e:?}")),
                                    }
                                }
                            }
                            "crash_r" => {
                                if let Some(r) = my_r.take() {
                                    {
                                        let mut g = sh.lock().unwrap();
                                        g.receiver_attached -= 1;
                                        g.receiver_dead = true;
                                    }
                                    r.abandon();
                                    let cfg = <Connection as NamedConceptMgmt>::Configuration::default();
                                    sh.lock().unwrap().receiver_dead = false;
                                    match unsafe { Connection::remove_receiver(&name, &cfg) } {
                                        Ok(()) => sh.lock().unwrap().probe("forced_remove"),
                                        Err(e) => sh.lock().unwrap().err("remove-error", format!("remove_receiver for the dead receiver failed with {e:?}")),
                                    }
                                }
                            }
                            _ => {}
                        }
                        // invariant: while somebody is attached the resource exists
                        {
                            let attached = {
                                let g = sh.lock().unwrap();
                                my_s.is_some() || my_r.is_some() || false && (g.sender_attached + g.receiver_attached > 0)
                            };
                            if attached {
                                match Connection::does_exist(&name) {
                                    Ok(true) => {}
                                    Ok(false) => sh.lock().unwrap().err("destroyed-early", "the connection does not exist although this thread is attached to it".into()),
                                    Err(e) => sh.lock().unwrap().err("exist-error", format!("does_exist failed: {e:?}")),
                                }
                                // and it is usable: the management data is reachable
                                if let Some(s) = &my_s {
                                    let _ = s.is_connected();
                                }
                            }
                        }
                    }
                    // detach whatever is left
                    if let Some(s) = my_s.take() {
                        sh.lock().unwrap().sender_attached -= 1;
                        drop(s);
                    }
                    if let Some(r) = my_r.take() {
                        sh.lock().unwrap().receiver_attached -= 1;
                        drop(r);
                    }
                }));
            }
            for h in hs {
                let _ = h.join();
            }
            // everybody left: the resource is gone, and the name can be used again with a full round trip
            match Connection::does_exist(&name) {
                Ok(false) => {}
                Ok(true) => sh.lock().unwrap().err("leak", "the connection still exists after sender and receiver detached".into()),
                Err(e) => sh.lock().unwrap().err("exist-error", format!("does_exist failed: {e:?}")),
            }
            let s = builder(&name, buf, borrow, false, 4).create_sender();
            let r = builder(&name, buf, borrow, false, 4).create_receiver();
            match (s, r) {
                (Ok(s), Ok(r)) => {
                    let ok = s.try_send(PointerOffset::new(0), SAMPLE, CH).is_ok() && matches!(r.receive(CH), Ok(Some(_)));
                    if !ok {
                        sh.lock().unwrap().err("unusable", "a fresh sender/receiver pair under the same name cannot exchange an offset".into());
                    }
                }
                (a, b) => sh.lock().unwrap().err("unusable", format!("the name cannot be used again after everybody detached: sender {:?} receiver {:?}", a.err(), b.err())),
            }
        });
        let g = sh.lock().unwrap();
        let mut violation = None;
        let mut inconclusive = false;
        if let Some((c, m)) = g.errs.first() {
            violation = viol(c, m.clone());
        }
        if violation.is_none() {
            match &report.outcome {
                Outcome::Ok => {}
                Outcome::StepCap => inconclusive = true,
                Outcome::Deadlock { blocked } => violation = viol("deadlock", format!("threads {blocked:?} blocked for ever")),
                Outcome::Panic { thread, msg } => violation = viol("panic", format!("thread {thread} panicked: {msg}")),
            }
        }
        let probes = g.probes.iter().map(|(k, v)| (*k, *v)).collect();
        RunResult { report, violation, beyond: None, probes, inconclusive }
    }
}
