// C12 — blackboard reads are atomic and monotone; one writer at a time (DESIGN.md §6.12), thread level.
// Real UnrestrictedAtomicMgmt (the size/alignment-erased form the blackboard uses) and the typed
// UnrestrictedAtomic<T>; write splitting (P1) preempts the writer inside its copy.
use crate::kit::*;
use iceoryx2_bb_lock_free::spmc::unrestricted_atomic::{UnrestrictedAtomic, UnrestrictedAtomicMgmt};
use iceoryx2_pal_concurrency_sync::sim::{self, Decisions, Outcome, rng::Rng};
use serde_json::{Value, json};
use std::collections::BTreeMap;
use std::sync::{Arc, Mutex};

fn fill(buf: &mut [u8], version: u64) {
    for (i, b) in buf.iter_mut().enumerate() {
        *b = (version as u8).wrapping_mul(37).wrapping_add((i as u8).wrapping_mul(11)).wrapping_add(version as u8);
    }
    // version itself in the first byte so that 1 byte values are checkable too
    buf[0] = version as u8;
}
fn version_of(buf: &[u8]) -> Result<u64, String> {
    let v = buf[0] as u64;
    let mut exp = vec![0u8; buf.len()];
    fill(&mut exp, v);
    if exp == buf { Ok(v) } else { Err(format!("value is a mixture of writes: got {:02x?}, version {v} would be {:02x?}", buf, exp)) }
}

#[derive(Default)]
struct Shared {
    stores_invoked: u64,
    stores_done: Vec<u64>, // stamps of completed stores, index = version - 1
    errs: Vec<(String, String)>,
    beyond: Vec<(String, String)>,
    probes: BTreeMap<&'static str, u64>,
    producers_now: u32,
}
impl Shared {
    fn err(&mut self, c: &str, m: String) {
        if self.errs.len() < 4 {
            self.errs.push((c.into(), m));
        }
    }
    fn probe(&mut self, k: &'static str) {
        *self.probes.entry(k).or_default() += 1;
    }
}

struct Raw {
    mgmt: UnrestrictedAtomicMgmt,
    buf: Box<[u64; 96]>,
    size: usize,
    align: usize,
    off: usize,
}
unsafe impl Send for Raw {}
unsafe impl Sync for Raw {}
impl Raw {
    fn data_ptr(&self) -> *mut u8 {
        unsafe { (self.buf.as_ptr() as *mut u8).add(self.off) }
    }
}

fn judge_load(sh: &Arc<Mutex<Shared>>, got: Result<u64, String>, last: &mut u64, inv: u64, who: usize) {
    let mut g = sh.lock().unwrap();
    match got {
        Err(e) => g.err("torn", format!("reader {who}: {e}")),
        Ok(v) => {
            if v > g.stores_invoked {
                let m_ = format!("reader {who} obtained version {v} but only {} updates were started", g.stores_invoked);
                g.err("invented", m_);
            }
            if v < *last {
                g.err("non-monotone", format!("reader {who} obtained version {v} after it had already seen version {last}"));
            }
            if v > *last {
                g.probe("reader_saw_new_version");
            }
            *last = v;
            let completed_before = g.stores_done.iter().filter(|s| **s < inv).count() as u64;
            if v < completed_before && g.beyond.is_empty() {
                g.beyond.push(("stale".into(), format!("reader {who} obtained version {v} although update {completed_before} had completed before the read began")));
            }
        }
    }
}

fn body_raw(r: Arc<Raw>, plan: Plan, sh: Arc<Mutex<Shared>>) {
    sim::arena(r.buf.as_ptr() as *const u8, 96 * 8);
    let mut hs = Vec::new();
    // writer(s): thread 1 is the producer, an optional thread 2 competes for the producer role
    for w in 0..plan.p("writers") as usize {
        let (r, sh, ops) = (r.clone(), sh.clone(), plan.threads[w].clone());
        hs.push(sim::spawn(&format!("W{w}"), move || {
            let mut have = false;
            for o in ops.iter() {
                match o.c.as_str() {
                    "acq" => {
                        if have {
                            continue;
                        }
                        let ok = unsafe { r.mgmt.__internal_acquire_producer() }.is_ok();
                        let mut g = sh.lock().unwrap();
                        if ok {
                            have = true;
                            g.producers_now += 1;
                            if g.producers_now > 1 {
                                g.err("two-writers", "two writers hold the producer role at the same time".into());
                            }
                        } else {
                            g.probe("second_producer_refused");
                        }
                    }
                    "rel" => {
                        if have {
                            sh.lock().unwrap().producers_now -= 1;
                            unsafe { r.mgmt.__internal_release_producer() };
                            have = false;
                        }
                    }
                    "store" => {
                        if !have {
                            continue;
                        }
                        let version = {
                            let mut g = sh.lock().unwrap();
                            g.stores_invoked += 1;
                            g.stores_invoked
                        };
                        unsafe {
                            let p = r.mgmt.__internal_get_ptr_to_write_cell(r.size, r.align, r.data_ptr());
                            if (p as usize) % r.align != 0 || (p as usize) < r.data_ptr() as usize || (p as usize) + r.size > r.buf.as_ptr() as usize + 96 * 8 {
                                sh.lock().unwrap().err("bounds", format!("write cell at {:p} is misaligned or outside the entry's memory", p));
                                return;
                            }
                            fill(core::slice::from_raw_parts_mut(p, r.size), version);
                            r.mgmt.__internal_update_write_cell();
                        }
                        let st = sim::stamp();
                        sh.lock().unwrap().stores_done.push(st);
                    }
                    _ => {}
                }
            }
            if have {
                sh.lock().unwrap().producers_now -= 1;
                unsafe { r.mgmt.__internal_release_producer() };
            }
        }));
    }
    for rd in 0..plan.p("readers") as usize {
        let (r, sh, n) = (r.clone(), sh.clone(), plan.threads[2 + rd].len());
        hs.push(sim::spawn(&format!("R{rd}"), move || {
            let mut last = 0u64;
            let mut out = vec![0u8; r.size];
            for _ in 0..n {
                let inv = sim::stamp();
                unsafe { r.mgmt.load(out.as_mut_ptr(), r.size, r.align, r.data_ptr()) };
                judge_load(&sh, version_of(&out), &mut last, inv, rd);
            }
        }));
    }
    for h in hs {
        let _ = h.join();
    }
    // quiescence: the last completed update is what everybody reads
    let mut out = vec![0u8; r.size];
    unsafe { r.mgmt.load(out.as_mut_ptr(), r.size, r.align, r.data_ptr()) };
    let mut g = sh.lock().unwrap();
    match version_of(&out) {
        Err(e) => g.err("torn", format!("read at quiescence: {e}")),
        Ok(v) => {
            if v != g.stores_invoked {
                let m_ = format!("read at quiescence returns version {v}, the last update was {}", g.stores_invoked);
                g.err("lost-update", m_);
            }
        }
    }
}

type Big = [u64; 9];
fn big(version: u64) -> Big {
    let mut b = [0u8; 72];
    fill(&mut b, version);
    unsafe { core::mem::transmute(b) }
}
fn big_version(x: &Big) -> Result<u64, String> {
    let b: [u8; 72] = unsafe { core::mem::transmute(*x) };
    version_of(&b)
}

fn body_typed(a: Arc<UnrestrictedAtomic<Big>>, plan: Plan, sh: Arc<Mutex<Shared>>) {
    sim::arena(Arc::as_ptr(&a) as *const u8, core::mem::size_of::<UnrestrictedAtomic<Big>>());
    let mut hs = Vec::new();
    for w in 0..plan.p("writers") as usize {
        let (a, sh, ops) = (a.clone(), sh.clone(), plan.threads[w].clone());
        hs.push(sim::spawn(&format!("W{w}"), move || {
            let mut prod = None;
            for o in ops.iter() {
                match o.c.as_str() {
                    "acq" => {
                        if prod.is_some() {
                            continue;
                        }
                        prod = a.acquire_producer();
                        let mut g = sh.lock().unwrap();
                        if prod.is_some() {
                            g.producers_now += 1;
                            if g.producers_now > 1 {
                                g.err("two-writers", "two writers hold the producer role at the same time".into());
                            }
                        } else {
                            g.probe("second_producer_refused");
                        }
                    }
                    "rel" => {
                        if prod.is_some() {
                            sh.lock().unwrap().producers_now -= 1;
                            prod = None;
                        }
                    }
                    "store" => {
                        if let Some(p) = &prod {
                            let version = {
                                let mut g = sh.lock().unwrap();
                                g.stores_invoked += 1;
                                g.stores_invoked
                            };
                            p.store(big(version));
                            let st = sim::stamp();
                            sh.lock().unwrap().stores_done.push(st);
                        }
                    }
                    _ => {}
                }
            }
            if prod.is_some() {
                sh.lock().unwrap().producers_now -= 1;
            }
            drop(prod);
        }));
    }
    for rd in 0..plan.p("readers") as usize {
        let (a, sh, n) = (a.clone(), sh.clone(), plan.threads[2 + rd].len());
        hs.push(sim::spawn(&format!("R{rd}"), move || {
            let mut last = 0u64;
            for _ in 0..n {
                let inv = sim::stamp();
                let v = a.load();
                judge_load(&sh, big_version(&v), &mut last, inv, rd);
            }
        }));
    }
    for h in hs {
        let _ = h.join();
    }
    let v = a.load();
    let mut g = sh.lock().unwrap();
    match big_version(&v) {
        Err(e) => g.err("torn", format!("read at quiescence: {e}")),
        Ok(v) => {
            if v != g.stores_invoked {
                let m_ = format!("read at quiescence returns version {v}, the last update was {}", g.stores_invoked);
                g.err("lost-update", m_);
            }
        }
    }
}

pub struct AtomicHarness {
    pub typed: bool,
}

impl Harness for AtomicHarness {
    fn name(&self) -> &'static str {
        if self.typed { "c12.unrestricted_atomic_typed" } else { "c12.unrestricted_atomic_raw" }
    }
    fn property(&self) -> &'static str {
        "C12"
    }
    fn modes(&self) -> Vec<(&'static str, u32, bool)> {
        vec![("sc", 3, true), ("sc+p1", 6, true), ("weak", 1, false)]
    }
    fn quick_runs(&self) -> u64 {
        50_000
    }
    fn components(&self) -> Value {
        json!({"real": ["iceoryx2-bb-lock-free spmc::unrestricted_atomic (Mgmt::load, write-cell two-step update, typed store, producer acquisition)"], "stub": ["thread scheduler", "preemption inside plain copies = write splitting"]})
    }
    fn generate(&self, r: &mut Rng, mode: &str) -> (Plan, CfgSer) {
        let writers = if r.chance(0.3) { 2 } else { 1 };
        let readers = r.range(1, 2);
        let mut threads: Vec<Vec<Op>> = vec![Vec::new(), Vec::new()];
        for w in 0..writers as usize {
            let mut ops = vec![Op::new("acq", &[])];
            for _ in 0..r.range(1, 6) {
                match r.below(8) {
                    0 => ops.push(Op::new("rel", &[])),
                    1 => ops.push(Op::new("acq", &[])),
                    _ => ops.push(Op::new("store", &[])),
                }
            }
            threads[w] = ops;
        }
        for _ in 0..readers {
            threads.push((0..r.range(1, 5)).map(|_| Op::new("load", &[])).collect());
        }
        let mut params = BTreeMap::new();
        params.insert("writers".into(), writers);
        params.insert("readers".into(), readers);
        params.insert("size".into(), *r.pick(&[1i64, 7, 8, 24, 64, 200]));
        params.insert("align".into(), *r.pick(&[1i64, 2, 4, 8, 16, 32, 64]));
        let plan = Plan { harness: self.name().into(), mode: mode.into(), params, threads };
        let mut cfg = CfgSer::base();
        cfg.step_cap = 6000;
        cfg.draw_strategy(r, 120);
        if mode == "weak" {
            cfg.weak = true;
            cfg.stale_prob = 0.3;
        }
        if mode == "sc+p1" {
            cfg.post_yield_prob = 0.15;
            cfg.p1 = true;
            cfg.split_prob = 0.6;
        }
        (plan, cfg)
    }
    fn execute(&self, plan: &Plan, cfg: &CfgSer, dec: Decisions) -> RunResult {
        let sh = Arc::new(Mutex::new(Shared::default()));
        let sh2 = sh.clone();
        let p = plan.clone();
        let report = if self.typed {
            let a = Arc::new(UnrestrictedAtomic::<Big>::new(big(0)));
            // the second cell starts uninitialised; whether a plain write is *detected* by the write
            // splitting machinery must not depend on heap garbage, so give it a fixed content
            {
                let p = a.acquire_producer().unwrap();
                unsafe { p.__internal_get_ptr_to_write_cell().write([0xA5A5_A5A5_A5A5_A5A5u64; 9]) };
            }
            sim_run(cfg.to_cfg(), dec, move || body_typed(a, p, sh2))
        } else {
            let size = plan.p("size") as usize;
            let align = plan.p("align") as usize;
            let mut raw = Raw { mgmt: UnrestrictedAtomicMgmt::new(), buf: Box::new([0u64; 96]), size, align, off: 0 };
            // the entry's memory is aligned to the value's alignment (as the blackboard guarantees)
            raw.off = (align - (raw.buf.as_ptr() as usize % align)) % align;
            // initial value (version 0) lives in read cell 0
            unsafe {
                let cell0 = UnrestrictedAtomicMgmt::__internal_get_data_cell(size, align, raw.data_ptr(), 0);
                fill(core::slice::from_raw_parts_mut(cell0 as *mut u8, size), 0);
            }
            let _ = &mut raw;
            let raw = Arc::new(raw);
            sim_run(cfg.to_cfg(), dec, move || body_raw(raw, p, sh2))
        };
        let g = sh.lock().unwrap();
        let mut violation = None;
        let mut inconclusive = false;
        if let Some((c, m)) = g.errs.first() {
            violation = viol(c, m.clone());
        }
        if violation.is_none() {
            match &report.outcome {
                Outcome::Ok => {}
                Outcome::StepCap => inconclusive = true,
                Outcome::Deadlock { blocked } => violation = viol("deadlock", format!("threads {blocked:?} blocked for ever")),
                Outcome::Panic { thread, msg } => violation = viol("panic", format!("thread {thread} panicked: {msg}")),
            }
        }
        let beyond = g.beyond.first().map(|(c, m)| Violation { class: c.clone(), msg: m.clone() });
        let probes = g.probes.iter().map(|(k, v)| (*k, *v)).collect();
        RunResult { report, violation, beyond, probes, inconclusive }
    }
}
