// Expired connections with a SMALL expired-connection buffer (E-api): three publishers come and go while one
// subscriber still holds samples of some of them and has undelivered samples of others; the subscriber's buffer
// of expired connections (config default 128) is 1..3, so the eviction logic of Receiver::prepare_connection_removal
// actually runs. Two oracles, two properties:
//   C17/C02 (lifetime): a held sample stays readable whatever is dropped in whatever order (canary re-read after
//        every call; the ranges of removed connections are poisoned, see DESIGN §3.2);
//   C01 (delivery): samples that were buffered for the subscriber when their publisher vanished are still
//        delivered, in order, exactly once — except when more expired connections with undelivered data or borrows
//        exist at once than the buffer can hold (then the documented warning applies and data may be discarded).
use crate::h_ps::{Pay, isolated_config, leftovers, pay, pay_ok, remove_leftovers};
use crate::kit::*;
use iceoryx2::port::publisher::Publisher;
use iceoryx2::port::subscriber::Subscriber;
use iceoryx2::port::update_connections::UpdateConnections;
use iceoryx2::prelude::*;
use iceoryx2::sample::Sample;
use iceoryx2_pal_concurrency_sync::sim::{Decisions, Outcome, rng::Rng};
use serde_json::{Value, json};
use std::collections::{BTreeMap, VecDeque};
use std::sync::{Arc, Mutex};

#[derive(Default)]
pub struct Errs {
    pub c01: Vec<(String, String)>,
    pub c17: Vec<(String, String)>,
    pub probes: BTreeMap<&'static str, u64>,
}
impl Errs {
    fn probe(&mut self, k: &'static str) {
        *self.probes.entry(k).or_default() += 1;
    }
}

struct MPub {
    id: u64,
    seq: u64,
    /// stamps delivered into the subscriber's buffer and not yet received
    queued: VecDeque<u64>,
    alive: bool,
    connected: bool,
}

fn scenario<S: Service>(plan: &Plan, errs: &Arc<Mutex<Errs>>) {
    let mut config = isolated_config("ex");
    let cap = plan.p("expired_buffer").max(1) as usize;
    config.defaults.publish_subscribe.subscriber_expired_connection_buffer = cap;
    let node = match NodeBuilder::new().config(&config).create::<S>() {
        Ok(n) => n,
        Err(e) => {
            errs.lock().unwrap().c01.push(("setup".into(), format!("node: {e:?}")));
            return;
        }
    };
    let max_borrow = plan.p("max_borrow").max(1) as usize;
    let buffer = plan.p("buffer").max(1) as usize;
    let sname: ServiceName = format!("vsim/ex/{}", plan.p("svc")).as_str().try_into().unwrap();
    let service = match node.service_builder(&sname).publish_subscribe::<Pay>().max_publishers(4).max_subscribers(1).subscriber_max_buffer_size(buffer).subscriber_max_borrowed_samples(max_borrow).history_size(0).enable_safe_overflow(false).create() {
        Ok(s) => s,
        Err(e) => {
            errs.lock().unwrap().c01.push(("setup".into(), format!("service: {e:?}")));
            return;
        }
    };
    let sub: Subscriber<S, Pay, ()> = match service.subscriber_builder().buffer_size(buffer).create() {
        Ok(s) => s,
        Err(e) => {
            errs.lock().unwrap().c01.push(("setup".into(), format!("subscriber: {e:?}")));
            return;
        }
    };
    let mut pubs: Vec<Option<Publisher<S, Pay, ()>>> = vec![None, None, None, None];
    let mut model: Vec<MPub> = Vec::new(); // every publisher instance ever created
    let mut slot_of: Vec<Option<usize>> = vec![None; 4]; // slot -> index into model
    let mut held: Vec<(u64, Sample<S, Pay, ()>)> = Vec::new();
    let mut next_id = 1u64;
    // may data have been discarded legitimately (more expired connections with data/borrows than the buffer holds)?
    let mut overflowed = false;
    for (opi, o) in plan.threads[0].iter().enumerate() {
        let what = format!("op #{opi} {}{:?} (expired-connection buffer {cap}, max borrow {max_borrow}, buffer {buffer})", o.c, o.a);
        crate::kit::crashnote::set(&what);
        let mut e = errs.lock().unwrap();
        let i = o.arg(0) as usize % 4;
        match o.c.as_str() {
            "cp" => {
                if pubs[i].is_none() {
                    if let Ok(p) = service.publisher_builder().max_loaned_samples(1).backpressure_strategy(BackpressureStrategy::DiscardData).create() {
                        pubs[i] = Some(p);
                        model.push(MPub { id: next_id, seq: 0, queued: VecDeque::new(), alive: true, connected: false });
                        slot_of[i] = Some(model.len() - 1);
                        next_id += 1;
                        // the subscriber connects explicitly, so that a later drop makes the connection expire
                        // instead of falling under "publisher vanished before the subscriber connected"
                        let _ = sub.update_connections();
                        model.last_mut().unwrap().connected = true;
                    }
                }
            }
            "send" => {
                if let (Some(p), Some(mi)) = (pubs[i].as_ref(), slot_of[i]) {
                    let m = &mut model[mi];
                    m.seq += 1;
                    let stamp = (m.id << 32) | m.seq;
                    match p.send_copy(pay(stamp)) {
                        Ok(n) => {
                            let fits = m.queued.len() < buffer;
                            if fits {
                                m.queued.push_back(stamp);
                            }
                            if (n == 1) != fits {
                                e.c01.push(("recipients".into(), format!("{what}: send reported {n} recipients; the subscriber's buffer for this publisher holds {} of {buffer}", m.queued.len())));
                            }
                            e.probe("sent");
                        }
                        Err(err) => e.c01.push(("send-error".into(), format!("{what}: send failed with {err:?}"))),
                    }
                }
            }
            "dp" => {
                if let (Some(p), Some(mi)) = (pubs[i].take(), slot_of[i].take()) {
                    drop(p);
                    model[mi].alive = false;
                    e.probe("publisher_dropped");
                }
            }
            "supd" => {
                let _ = sub.update_connections();
            }
            "recv" => {
                match sub.receive() {
                    Ok(Some(smp)) => {
                        e.probe("received");
                        let pl = *smp.payload();
                        if !pay_ok(&pl) {
                            e.c01.push(("corrupt".into(), format!("{what}: received payload {pl:x?} is not one that was written")));
                        } else {
                            let stamp = pl[0];
                            match model.iter_mut().find(|m| m.id == stamp >> 32) {
                                None => e.c01.push(("corrupt".into(), format!("{what}: received {stamp:#x} of an unknown publisher"))),
                                Some(m) => {
                                    match m.queued.front() {
                                        Some(x) if *x == stamp => {
                                            m.queued.pop_front();
                                        }
                                        Some(x) => {
                                            if overflowed && m.queued.contains(&stamp) {
                                                while m.queued.front() != Some(&stamp) {
                                                    m.queued.pop_front();
                                                }
                                                m.queued.pop_front();
                                            } else {
                                                e.c01.push(("order".into(), format!("{what}: received {stamp:#x}, the next undelivered sample of that publisher is {x:#x} (lost, duplicated or reordered)")));
                                            }
                                        }
                                        None => e.c01.push(("duplicate".into(), format!("{what}: received {stamp:#x} although nothing of that publisher is undelivered"))),
                                    }
                                }
                            }
                            held.push((stamp, smp));
                        }
                    }
                    Ok(None) => {
                        // everything buffered must be receivable unless the borrow limit of that connection is reached
                        let borrowed = |id: u64| held.iter().filter(|h| h.0 >> 32 == id).count();
                        let owed: Vec<u64> = model.iter().filter(|m| m.connected && !m.queued.is_empty() && borrowed(m.id) < max_borrow).map(|m| *m.queued.front().unwrap()).collect();
                        if !owed.is_empty() && !overflowed {
                            e.c01.push(("lost".into(), format!("{what}: receive returned nothing although {owed:x?} are buffered for the subscriber (publishers alive: {:?}); never more than {cap} expired connections had data or borrows at once", model.iter().map(|m| (m.id, m.alive)).collect::<Vec<_>>())));
                        }
                    }
                    Err(iceoryx2::port::ReceiveError::ExceedsMaxBorrows) => e.probe("receive_refused_max_borrows"),
                    Err(err) => e.c01.push(("receive-error".into(), format!("{what}: receive failed with {err:?}"))),
                }
            }
            "rel" => {
                if !held.is_empty() {
                    let k = o.arg(1) as usize % held.len();
                    drop(held.remove(k));
                }
            }
            _ => {}
        }
        // how many vanished publishers still have undelivered data or borrowed samples at this moment?
        let expired_in_use = model.iter().filter(|m| !m.alive && m.connected && (!m.queued.is_empty() || held.iter().any(|h| h.0 >> 32 == m.id))).count();
        if expired_in_use > cap {
            if !overflowed {
                e.probe("expired_buffer_exceeded_data_may_be_discarded");
            }
            overflowed = true;
        }
        if expired_in_use == cap {
            e.probe("expired_buffer_exactly_full");
        }
        for (stamp, smp) in held.iter() {
            if *smp.payload() != pay(*stamp) {
                e.c17.push(("payload-changed".into(), format!("after {what}: the held sample {stamp:#x} now reads {:x?}", smp.payload())));
            }
        }
        if !e.c01.is_empty() || !e.c17.is_empty() {
            break;
        }
    }
    crate::kit::crashnote::set("tear-down");
    drop(held);
    drop(pubs);
    drop(sub);
    drop(service);
    drop(node);
}

pub struct ExpiredConnHarness {
    pub prop: &'static str,
    pub ipc: bool,
}
impl Harness for ExpiredConnHarness {
    fn name(&self) -> &'static str {
        match (self.prop, self.ipc) {
            ("C01", true) => "c01.expired_connections_ipc",
            ("C01", false) => "c01.expired_connections_local",
            ("C17", true) => "c17.expired_connections_ipc",
            _ => "c17.expired_connections_local",
        }
    }
    fn property(&self) -> &'static str {
        self.prop
    }
    fn modes(&self) -> Vec<(&'static str, u32, bool)> {
        vec![("seq", 1, true)]
    }
    fn quick_runs(&self) -> u64 {
        1500
    }
    fn isolate(&self) -> bool {
        true
    }
    fn components(&self) -> Value {
        json!({"real": ["iceoryx2 publish-subscribe ports, Receiver::prepare_connection_removal with subscriber_expired_connection_buffer 1..3", if self.ipc { "ipc concepts" } else { "local concepts" }], "stub": ["clock", "pid", "choice of which party acts next"]})
    }
    fn generate(&self, r: &mut Rng, mode: &str) -> (Plan, CfgSer) {
        let mut params = BTreeMap::new();
        params.insert("svc".into(), r.range(0, 1_000_000));
        params.insert("expired_buffer".into(), r.range(1, 3));
        params.insert("max_borrow".into(), r.range(1, 3));
        params.insert("buffer".into(), r.range(1, 4));
        let mut ops = vec![Op::new("cp", &[0]), Op::new("cp", &[1]), Op::new("cp", &[2])];
        for _ in 0..r.range(10, 50) {
            let k = r.below(100);
            let i = r.range(0, 3);
            ops.push(if k < 8 {
                Op::new("cp", &[i])
            } else if k < 38 {
                Op::new("send", &[i])
            } else if k < 52 {
                Op::new("dp", &[i])
            } else if k < 60 {
                Op::new("supd", &[])
            } else if k < 84 {
                Op::new("recv", &[])
            } else {
                Op::new("rel", &[0, r.range(0, 3)])
            });
        }
        // drain at the end: everything owed must still arrive
        for _ in 0..8 {
            ops.push(Op::new("rel", &[0, 0]));
            ops.push(Op::new("recv", &[]));
        }
        let plan = Plan { harness: self.name().into(), mode: mode.into(), params, threads: vec![ops] };
        let mut cfg = CfgSer::base();
        cfg.step_cap = 6_000_000;
        (plan, cfg)
    }
    fn execute(&self, plan: &Plan, cfg: &CfgSer, dec: Decisions) -> RunResult {
        let errs = Arc::new(Mutex::new(Errs::default()));
        let e2 = errs.clone();
        let plan2 = plan.clone();
        let ipc = self.ipc;
        crate::kit::crashnote::install_segv_reporter();
        let report = sim_run(cfg.to_cfg(), dec, move || {
            if ipc {
                scenario::<ipc::Service>(&plan2, &e2)
            } else {
                scenario::<local::Service>(&plan2, &e2)
            }
        });
        let pid = unsafe { libc::getpid() };
        let _ = leftovers("ex", pid);
        remove_leftovers("ex", pid);
        #[allow(unused_mut)]
        let mut g = take_after_run(&errs);
        let mine = if self.prop == "C01" { &g.c01 } else { &g.c17 };
        let mut violation = mine.first().map(|(c, m)| Violation { class: c.clone(), msg: m.clone() });
        let mut inconclusive = false;
        if violation.is_none() {
            match &report.outcome {
                Outcome::Ok => {}
                Outcome::StepCap => inconclusive = true,
                Outcome::Deadlock { blocked } => violation = viol("deadlock", format!("threads {blocked:?} blocked for ever")),
                Outcome::Panic { thread, msg } => {
                    // the documented fatal: more expired connections WITH BORROWS than the buffer holds
                    if msg.contains("Expired connection buffer exceeded") {
                        inconclusive = true;
                    } else {
                        violation = viol("panic", format!("thread {thread} panicked: {}", &msg[..msg.len().min(400)]))
                    }
                }
            }
        }
        if violation.is_none() && (!g.c01.is_empty() || !g.c17.is_empty()) {
            inconclusive = true;
        }
        let mut report = report;
        report.chooses = plan.ops() as u64;
        report.sched_sig = hash_str(&serde_json::to_string(plan).unwrap());
        let probes = g.probes.iter().map(|(k, v)| (*k, *v)).collect();
        RunResult { report, violation, beyond: None, probes, inconclusive }
    }
}
