// C11 — request/response: responses reach exactly the request they answer (DESIGN.md §6.11). E-api
// history engine: clients and servers as parties, seeded call histories, routing/ordering/at-most-once
// oracle over self-describing payloads plus disconnect observability.
use crate::h_ps::{isolated_config, leftovers, remove_leftovers};
use crate::kit::*;
use iceoryx2::active_request::ActiveRequest;
use iceoryx2::pending_response::PendingResponse;
use iceoryx2::port::client::{Client, RequestSendError};
use iceoryx2::port::server::Server;
use iceoryx2::prelude::*;
use iceoryx2_pal_concurrency_sync::sim::{Decisions, Outcome, rng::Rng};
use serde_json::{Value, json};
use std::collections::BTreeMap;
use std::sync::{Arc, Mutex};

type Req = [u64; 2];
type Resp = [u64; 4];
fn req(stamp: u64) -> Req {
    [stamp, !stamp]
}
fn resp(req_stamp: u64, server: u64, seq: u64) -> Resp {
    [req_stamp, server, seq, req_stamp ^ server.rotate_left(17) ^ seq.rotate_left(33) ^ 0xA5A5]
}
fn resp_ok(r: &Resp) -> bool {
    r[3] == r[0] ^ r[1].rotate_left(17) ^ r[2].rotate_left(33) ^ 0xA5A5
}

#[derive(Default)]
struct Errs {
    errs: Vec<(String, String)>,
    probes: BTreeMap<&'static str, u64>,
}
impl Errs {
    fn err(&mut self, c: &str, m: String) {
        if self.errs.len() < 4 {
            self.errs.push((c.into(), m));
        }
    }
    fn probe(&mut self, k: &'static str) {
        *self.probes.entry(k).or_default() += 1;
    }
}

struct RPending<S: Service> {
    stamp: u64,
    p: PendingResponse<S, Req, (), Resp, ()>,
    /// last sequence number seen per server instance
    last_seq: BTreeMap<u64, u64>,
}
struct RClient<S: Service> {
    id: u64,
    c: Client<S, Req, (), Resp, ()>,
    pend: Vec<RPending<S>>,
    seq: u64,
}
struct RActive<S: Service> {
    stamp: u64,
    a: ActiveRequest<S, Req, (), Resp, ()>,
    seq: u64,
}
struct RServer<S: Service> {
    id: u64,
    s: Server<S, Req, (), Resp, ()>,
    act: Vec<RActive<S>>,
    /// request stamps already received by this server (at-most-once) and last stamp per client
    seen: Vec<u64>,
    last_from: BTreeMap<u64, u64>,
}

fn run_scenario<S: Service>(plan: &Plan, errs: &Arc<Mutex<Errs>>) {
    let config = isolated_config("rr");
    let node = match NodeBuilder::new().config(&config).create::<S>() {
        Ok(n) => n,
        Err(e) => {
            errs.lock().unwrap().err("setup", format!("node creation failed: {e:?}"));
            return;
        }
    };
    let p = |k: &str| plan.p(k) as usize;
    let max_active = p("max_active");
    let sname: ServiceName = format!("vsim/rr/{}", plan.p("svc")).as_str().try_into().unwrap();
    let service = match node
        .service_builder(&sname)
        .request_response::<Req, Resp>()
        .max_clients(p("max_clients"))
        .max_servers(p("max_servers"))
        .max_active_requests_per_client(max_active)
        .max_response_buffer_size(p("resp_buffer"))
        .max_borrowed_responses_per_pending_response(p("max_borrow"))
        .enable_safe_overflow_for_requests(plan.p("req_overflow") != 0)
        .enable_safe_overflow_for_responses(plan.p("resp_overflow") != 0)
        .enable_fire_and_forget_requests(plan.p("fire_and_forget") != 0)
        .create()
    {
        Ok(s) => s,
        Err(e) => {
            errs.lock().unwrap().err("setup", format!("service creation failed: {e:?}"));
            return;
        }
    };
    let mut clients: Vec<Option<RClient<S>>> = vec![None, None];
    let mut servers: Vec<Option<RServer<S>>> = vec![None, None];
    // pending responses / active requests that outlive their port
    let mut orphans_p: Vec<RPending<S>> = Vec::new();
    let mut orphans_a: Vec<RActive<S>> = Vec::new();
    let mut next_id = 1u64;
    // request stamp -> still has a live PendingResponse?
    let mut pending_alive: BTreeMap<u64, bool> = BTreeMap::new();
    let mut sent_requests: Vec<u64> = Vec::new();
    // client instances that no longer exist
    let mut dead_clients: Vec<u64> = Vec::new();
    // a server still held an ActiveRequest of a client when that client vanished (precondition of the known finding)
    let mut stale_active_exists = false;
    // request stamp -> server instances that were alive (hence connected by the sending client) at send time
    let mut sent_to: BTreeMap<u64, Vec<u64>> = BTreeMap::new();
    // model of the servers' request buffers: (client instance, server instance) -> queued request stamps
    let mut rq: BTreeMap<(u64, u64), std::collections::VecDeque<u64>> = BTreeMap::new();
    let req_overflow = plan.p("req_overflow") != 0;
    // (client, server) pairs where the server has connected to the client (updated its connections while the
    // client existed); requests of a client that vanishes before that are lost as documented (FAQ 'Losing Data')
    let mut attached: Vec<(u64, u64)> = Vec::new();

    for (opi, o) in plan.threads[0].iter().enumerate() {
        let mut e = errs.lock().unwrap();
        let what = format!("op #{opi} {}{:?}", o.c, o.a);
        let i = o.arg(0) as usize % 2;
        let k = o.arg(1) as usize;
        match o.c.as_str() {
            "cc" => {
                if clients[i].is_none() {
                    match service.client_builder().backpressure_strategy(BackpressureStrategy::DiscardData).create() {
                        Ok(c) => {
                            clients[i] = Some(RClient { id: next_id, c, pend: Vec::new(), seq: 0 });
                            next_id += 1;
                            e.probe("client_created");
                        }
                        Err(_) => e.probe("client_refused"),
                    }
                }
            }
            "dc" => {
                if let Some(c) = clients[i].take() {
                    dead_clients.push(c.id);
                    for ((qc, qs), q) in rq.iter_mut() {
                        if *qc == c.id && !attached.contains(&(*qc, *qs)) && !q.is_empty() {
                            q.clear();
                            e.probe("documented_loss_client_vanished_before_server_connected");
                        }
                    }
                    if servers.iter().flatten().any(|s| s.act.iter().any(|a| a.stamp >> 32 == c.id)) || orphans_a.iter().any(|a| a.stamp >> 32 == c.id) {
                        stale_active_exists = true;
                    }
                    // the pending responses either go first or outlive the client
                    if o.arg(1) % 2 == 0 {
                        for p in c.pend.iter() {
                            pending_alive.insert(p.stamp, false);
                        }
                        drop(c.pend);
                        drop(c.c);
                    } else {
                        drop(c.c);
                        orphans_p.extend(c.pend);
                    }
                    e.probe("client_dropped");
                }
            }
            "cs" => {
                if servers[i].is_none() {
                    match service.server_builder().backpressure_strategy(BackpressureStrategy::DiscardData).create() {
                        Ok(s) => {
                            for c in clients.iter().flatten() {
                                attached.push((c.id, next_id));
                            }
                            servers[i] = Some(RServer { id: next_id, s, act: Vec::new(), seen: Vec::new(), last_from: BTreeMap::new() });
                            next_id += 1;
                            e.probe("server_created");
                        }
                        Err(_) => e.probe("server_refused"),
                    }
                }
            }
            "ds" => {
                if let Some(s) = servers[i].take() {
                    if o.arg(1) % 2 == 0 {
                        drop(s.act);
                        drop(s.s);
                    } else {
                        drop(s.s);
                        orphans_a.extend(s.act);
                    }
                    e.probe("server_dropped");
                }
            }
            "req" => {
                if let Some(c) = clients[i].as_mut() {
                    c.seq += 1;
                    let stamp = (c.id << 32) | c.seq;
                    match c.c.send_copy(req(stamp)) {
                        Ok(p) => {
                            if c.pend.len() >= max_active {
                                e.err("limit-not-enforced", format!("{what}: request sent although {} of {max_active} requests are active", c.pend.len()));
                            }
                            // the response stream of a fresh request is open as soon as at least one server is connected
                            if servers.iter().flatten().next().is_some() && !p.is_connected() {
                                e.err("not-connected", format!("{what}: the pending response of the request just sent reports is_connected() == false although a server exists"));
                            }
                            c.pend.push(RPending { stamp, p, last_seq: BTreeMap::new() });
                            pending_alive.insert(stamp, true);
                            sent_requests.push(stamp);
                            let mut delivered_to = Vec::new();
                            for s in servers.iter().flatten() {
                                let q = rq.entry((c.id, s.id)).or_default();
                                if q.len() < max_active {
                                    q.push_back(stamp);
                                    delivered_to.push(s.id);
                                } else if req_overflow {
                                    q.pop_front();
                                    q.push_back(stamp);
                                    delivered_to.push(s.id);
                                }
                            }
                            sent_to.insert(stamp, delivered_to);
                            e.probe("request_sent");
                        }
                        Err(RequestSendError::ExceedsMaxActiveRequests) => {
                            e.probe("request_refused_max_active");
                            if c.pend.len() < max_active {
                                e.err("spurious-limit", format!("{what}: ExceedsMaxActiveRequests although only {} of {max_active} requests are active", c.pend.len()));
                            }
                        }
                        Err(RequestSendError::SendError(iceoryx2::port::SendError::LoanError(iceoryx2::port::LoanError::OutOfMemory))) => {
                            // the request segment is dimensioned for the declared limits; beyond them (the
                            // request would exceed max_active anyway) running out of chunks is a refusal
                            e.probe("request_refused_out_of_memory");
                            if c.pend.len() < max_active {
                                e.err("oom-within-limits", format!("{what}: request loan failed with OutOfMemory although only {} of {max_active} requests are active", c.pend.len()));
                            }
                        }
                        Err(err) => e.err("send-error", format!("{what}: request failed with {err:?}")),
                    }
                }
            }
            "dpr" => {
                if let Some(c) = clients[i].as_mut() {
                    if !c.pend.is_empty() {
                        let p = c.pend.remove(k % c.pend.len());
                        pending_alive.insert(p.stamp, false);
                        drop(p);
                        e.probe("pending_response_dropped");
                    }
                } else if !orphans_p.is_empty() {
                    let p = orphans_p.remove(k % orphans_p.len());
                    pending_alive.insert(p.stamp, false);
                    drop(p);
                }
            }
            "srecv" => {
                if let Some(s) = servers[i].as_mut() {
                    for c in clients.iter().flatten() {
                        if !attached.contains(&(c.id, s.id)) {
                            attached.push((c.id, s.id));
                        }
                    }
                    match s.s.receive() {
                        Ok(Some(a)) => {
                            let pl = *a.payload();
                            if pl != req(pl[0]) {
                                e.err("corrupt", format!("{what}: received request payload {:x?} was never written", pl));
                            } else {
                                let stamp = pl[0];
                                if !sent_requests.contains(&stamp) {
                                    e.err("invented", format!("{what}: server received request {stamp:#x} which no client sent"));
                                }
                                if s.seen.contains(&stamp) {
                                    e.err("duplicate", format!("{what}: server {} received request {stamp:#x} twice", s.id));
                                }
                                let from = stamp >> 32;
                                if let Some(l) = s.last_from.get(&from) {
                                    if *l >= stamp {
                                        e.err("order", format!("{what}: server {} received request {stamp:#x} after {l:#x} of the same client", s.id));
                                    }
                                }
                                s.last_from.insert(from, stamp);
                                s.seen.push(stamp);
                                if let Some(q) = rq.get_mut(&(from, s.id)) {
                                    // everything the server skipped in front of it must be requests whose pending
                                    // response is gone (they are discarded unless fire-and-forget is enabled)
                                    while let Some(x) = q.pop_front() {
                                        if x == stamp {
                                            break;
                                        }
                                        if pending_alive.get(&x) == Some(&true) && !stale_active_exists {
                                            e.err("request-skipped", format!("{what}: server {} skipped request {x:#x} whose pending response is alive and delivered the later request {stamp:#x}", s.id));
                                        }
                                    }
                                }
                                // an ActiveRequest obtained for a client that has already vanished is stale from the
                                // start (known finding: it shares slot, channel and request id with the client that
                                // takes the vanished one's place)
                                if dead_clients.contains(&(stamp >> 32)) {
                                    stale_active_exists = true;
                                }
                                s.act.push(RActive { stamp, a, seq: 0 });
                                e.probe("request_received");
                            }
                        }
                        Ok(None) => {
                            // nothing deliverable: every buffered request of every client must be a dead one
                            // (they have just been discarded) or, with fire-and-forget, there is none at all
                            let sid = s.id;
                            let faf = plan.p("fire_and_forget") != 0;
                            for ((_, qs), q) in rq.iter_mut() {
                                if *qs != sid {
                                    continue;
                                }
                                let alive: Vec<u64> = q.iter().filter(|x| faf || pending_alive.get(x) == Some(&true)).cloned().collect();
                                if !alive.is_empty() {
                                    let class = if stale_active_exists { "request-lost-after-client-replaced" } else { "request-lost" };
                                    e.err(class, format!("{what}: server {sid} received nothing although requests {:x?} sit in its buffer with their pending responses alive", alive));
                                }
                                q.clear();
                            }
                        }
                        Err(iceoryx2::port::ReceiveError::ExceedsMaxBorrows) => e.probe("server_receive_refused_max_borrows"),
                        Err(err) => e.err("receive-error", format!("{what}: server receive failed with {err:?}")),
                    }
                }
            }
            "resp" => {
                let (sid, act) = match servers[i].as_mut() {
                    Some(s) if !s.act.is_empty() => {
                        let n = s.act.len();
                        (s.id, Some(&mut s.act[k % n]))
                    }
                    _ => (0, if orphans_a.is_empty() { None } else { let n = orphans_a.len(); Some(&mut orphans_a[k % n]) }),
                };
                if let Some(a) = act {
                    a.seq += 1;
                    let connected = a.a.is_connected();
                    if connected && pending_alive.get(&a.stamp) == Some(&false) {
                        // distinguish the known finding (the client that sent the request is gone and a
                        // replacement client re-uses its connection slot, channel and request id) from any other cause
                        let class = if dead_clients.contains(&(a.stamp >> 32)) { "stale-connection-after-client-replaced" } else { "stale-connection" };
                        e.err(class, format!("{what}: the active request for {:#x} reports is_connected() although its pending response was dropped", a.stamp));
                    }
                    match a.a.send_copy(resp(a.stamp, sid, a.seq)) {
                        Ok(()) => e.probe("response_sent"),
                        Err(_) => e.probe("response_send_failed"),
                    }
                }
            }
            "dar" => {
                if let Some(s) = servers[i].as_mut() {
                    if !s.act.is_empty() {
                        let a = s.act.remove(k % s.act.len());
                        drop(a);
                        e.probe("active_request_dropped");
                    }
                } else if !orphans_a.is_empty() {
                    drop(orphans_a.remove(k % orphans_a.len()));
                }
            }
            "crecv" => {
                let pend = match clients[i].as_mut() {
                    Some(c) if !c.pend.is_empty() => {
                        let n = c.pend.len();
                        Some(&mut c.pend[k % n])
                    }
                    _ => {
                        if orphans_p.is_empty() {
                            None
                        } else {
                            let n = orphans_p.len();
                            Some(&mut orphans_p[k % n])
                        }
                    }
                };
                if let Some(p) = pend {
                    match p.p.receive() {
                        Ok(Some(r)) => {
                            let pl = *r.payload();
                            e.probe("response_received");
                            if !resp_ok(&pl) {
                                e.err("corrupt", format!("{what}: received response payload {:x?} was never written", pl));
                            } else if pl[0] != p.stamp {
                                let class = if pl[0] >> 32 != p.stamp >> 32 && dead_clients.contains(&(pl[0] >> 32)) { "misrouted-to-replacement-client" } else { "misrouted" };
                                e.err(class, format!("{what}: the pending response of request {:#x} received a response that was sent for request {:#x} (server instance {}, seq {})", p.stamp, pl[0], pl[1], pl[2]));
                            } else {
                                let last = p.last_seq.get(&pl[1]).cloned().unwrap_or(0);
                                if pl[2] <= last {
                                    e.err("order", format!("{what}: request {:#x} got response seq {} from server {} after seq {last} (duplicate or reordered)", p.stamp, pl[2], pl[1]));
                                }
                                p.last_seq.insert(pl[1], pl[2]);
                            }
                        }
                        Ok(None) => {}
                        Err(_) => e.probe("response_receive_refused"),
                    }
                }
            }
            _ => {}
        }
        if !e.errs.is_empty() {
            break;
        }
    }
    // completeness: a request whose pending response is still alive (client alive too) cannot have been
    // evicted (at most max_active requests per client are outstanding, which is the server's buffer per
    // client) and must not be discarded: every server that existed when it was sent receives it
    {
        let mut e = errs.lock().unwrap();
        if e.errs.is_empty() {
            for s in servers.iter_mut().flatten() {
                let mut guard = 0;
                loop {
                    guard += 1;
                    if guard > 64 {
                        break;
                    }
                    match s.s.receive() {
                        Ok(Some(a)) => {
                            let pl = *a.payload();
                            if pl == req(pl[0]) {
                                if let Some(q) = rq.get_mut(&(pl[0] >> 32, s.id)) {
                                    while let Some(x) = q.pop_front() {
                                        if x == pl[0] {
                                            break;
                                        }
                                    }
                                }
                                if s.seen.contains(&pl[0]) {
                                    e.err("duplicate", format!("final drain: server {} received request {:#x} twice", s.id, pl[0]));
                                }
                                s.seen.push(pl[0]);
                            }
                            drop(a);
                        }
                        Ok(None) => break,
                        Err(iceoryx2::port::ReceiveError::ExceedsMaxBorrows) => {
                            if s.act.is_empty() {
                                break;
                            }
                            s.act.remove(0);
                        }
                        Err(_) => break,
                    }
                }
                for c in clients.iter().flatten() {
                    for p in c.pend.iter() {
                        let delivered = sent_to.get(&p.stamp).map(|v| v.contains(&s.id)).unwrap_or(false);
                        let still_queued = rq.get(&(c.id, s.id)).map(|q| q.contains(&p.stamp)).unwrap_or(false);
                        if delivered && still_queued && !s.seen.contains(&p.stamp) {
                            let class = if stale_active_exists { "request-lost-after-client-replaced" } else { "request-lost" };
                            e.err(class, format!("request {:#x} fitted into the request buffer of server {} and its pending response is still alive, but the server never received it", p.stamp, s.id));
                        }
                    }
                }
            }
        }
    }
    drop(orphans_a);
    drop(orphans_p);
    drop(servers);
    drop(clients);
    drop(service);
    drop(node);
}

pub struct ReqRespHarness {
    pub ipc: bool,
    pub prop: &'static str,
}

const LIMIT_CLASSES: [&str; 3] = ["oom-within-limits", "limit-not-enforced", "spurious-limit"];
impl Harness for ReqRespHarness {
    fn name(&self) -> &'static str {
        match (self.prop, self.ipc) {
            ("C11", true) => "c11.reqresp_ipc",
            ("C11", false) => "c11.reqresp_local",
            (_, true) => "c08.reqresp_ipc",
            _ => "c08.reqresp_local",
        }
    }
    fn property(&self) -> &'static str {
        self.prop
    }
    fn modes(&self) -> Vec<(&'static str, u32, bool)> {
        vec![("seq", 1, true)]
    }
    fn quick_runs(&self) -> u64 {
        match (self.prop, self.ipc) {
            ("C11", true) => 1200,
            ("C11", false) => 3500,
            (_, true) => 500,
            _ => 1500,
        }
    }
    fn isolate(&self) -> bool {
        true
    }
    fn components(&self) -> Value {
        json!({"real": ["iceoryx2 request-response service, client/server ports, pending responses, active requests", if self.ipc { "ipc concepts under an isolated root/prefix" } else { "local concepts" }], "stub": ["clock", "pid", "choice of which party acts next"]})
    }
    fn generate(&self, r: &mut Rng, mode: &str) -> (Plan, CfgSer) {
        let mut params = BTreeMap::new();
        params.insert("max_clients".into(), r.range(1, 2));
        params.insert("max_servers".into(), r.range(1, 2));
        params.insert("max_active".into(), r.range(1, 3));
        params.insert("resp_buffer".into(), r.range(1, 3));
        params.insert("max_borrow".into(), r.range(1, 3));
        params.insert("req_overflow".into(), r.chance(0.5) as i64);
        params.insert("resp_overflow".into(), r.chance(0.5) as i64);
        params.insert("fire_and_forget".into(), r.chance(0.3) as i64);
        params.insert("svc".into(), r.range(0, 1_000_000));
        let mut ops = vec![Op::new("cs", &[0, 0]), Op::new("cc", &[0, 0])];
        let _ = &mut ops;
        for _ in 0..r.range(10, 60) {
            let i = r.range(0, 1);
            let k = r.range(0, 3);
            let x = r.below(100);
            ops.push(Op::new(
                if x < 6 {
                    "cc"
                } else if x < 10 {
                    "dc"
                } else if x < 15 {
                    "cs"
                } else if x < 18 {
                    "ds"
                } else if x < 38 {
                    "req"
                } else if x < 46 {
                    "dpr"
                } else if x < 60 {
                    "srecv"
                } else if x < 78 {
                    "resp"
                } else if x < 84 {
                    "dar"
                } else {
                    "crecv"
                },
                &[i, k],
            ));
        }
        if r.chance(0.3) {
            // churn: many short-lived requests so that response channels and request slots get re-used,
            // with the server's request buffer kept full part of the time
            let mut churn = vec![Op::new("cs", &[0, 0]), Op::new("cc", &[0, 0])];
            for _ in 0..r.range(15, 45) {
                match r.below(10) {
                    0..=4 => {
                        churn.push(Op::new("req", &[0, 0]));
                        if r.chance(0.7) {
                            churn.push(Op::new("dpr", &[0, r.range(0, 3)]));
                        }
                    }
                    5 | 6 => churn.push(Op::new("srecv", &[0, 0])),
                    7 => churn.push(Op::new("dar", &[0, r.range(0, 3)])),
                    8 => churn.push(Op::new("resp", &[0, r.range(0, 3)])),
                    _ => churn.push(Op::new("crecv", &[0, r.range(0, 3)])),
                }
            }
            ops = churn;
        }
        let plan = Plan { harness: self.name().into(), mode: mode.into(), params, threads: vec![ops] };
        let mut cfg = CfgSer::base();
        cfg.step_cap = 3_000_000;
        (plan, cfg)
    }
    fn execute(&self, plan: &Plan, cfg: &CfgSer, dec: Decisions) -> RunResult {
        let errs = Arc::new(Mutex::new(Errs::default()));
        let e2 = errs.clone();
        let plan2 = plan.clone();
        let ipc = self.ipc;
        let mut report = sim_run(cfg.to_cfg(), dec, move || {
            if ipc {
                run_scenario::<ipc::Service>(&plan2, &e2);
            } else {
                run_scenario::<local::Service>(&plan2, &e2);
            }
        });
        let pid = unsafe { libc::getpid() };
        let _ = leftovers("rr", pid);
        remove_leftovers("rr", pid);
        #[allow(unused_mut)]
        let mut g = take_after_run(&errs);
        // the limit oracle belongs to C08, everything else to C11; a sibling's violation ends the run early
        let is_limit = |c: &str| LIMIT_CLASSES.contains(&c);
        let mine = g.errs.iter().find(|(c, _)| is_limit(c) == (self.prop == "C08"));
        let mut violation = mine.map(|(c, m)| Violation { class: c.clone(), msg: m.clone() });
        let mut inconclusive = violation.is_none() && !g.errs.is_empty();
        if violation.is_none() {
            match &report.outcome {
                Outcome::Ok => {}
                Outcome::StepCap => inconclusive = true,
                Outcome::Deadlock { blocked } => violation = viol("deadlock", format!("threads {blocked:?} blocked for ever")),
                Outcome::Panic { thread, msg } => violation = viol("panic", format!("thread {thread} panicked: {}", &msg[..msg.len().min(300)])),
            }
        }
        report.chooses = plan.ops() as u64;
        report.sched_sig = hash_str(&serde_json::to_string(&plan.threads).unwrap());
        let probes = g.probes.iter().map(|(k, v)| (*k, *v)).collect();
        RunResult { report, violation, beyond: None, probes, inconclusive }
    }
}
