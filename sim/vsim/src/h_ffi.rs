// C18 — the C binding is a faithful projection of the Rust API (DESIGN.md §6.18). E-api with four parties per
// pattern on ONE service: a C publisher and a Rust publisher, a C subscriber and a Rust subscriber (and the same
// for notifier/listener). The seeded history is executed in lock-step through both dialects (loan, send, drop a
// loan, send_copy, receive, notify, wait, clock advance past the deadline, drop and re-create a C port) and the
// oracle compares, call by call: success/failure, the NAME of the failure (C error code -> its printable name vs
// the Rust error), recipient counts, and on the receiving side payload bytes, element counts and header values
// seen through the C API with those seen through the Rust API for the very same samples. Dropping a C handle must
// release exactly the object it wraps (loan budget restored, port count of the service decremented by one,
// nothing left on disk afterwards).
// NOT decided here: totality / injectivity of the error tables over all enum variants (a finite enumeration).
#![allow(non_camel_case_types)]
use crate::h_ps::{isolated_config, leftovers, remove_leftovers, root_of};
use crate::kit::*;
use core::ffi::c_void;
use iceoryx2::port::listener::Listener;
use iceoryx2::port::notifier::Notifier;
use iceoryx2::port::publisher::Publisher;
use iceoryx2::port::subscriber::Subscriber;
use iceoryx2::prelude::*;
use iceoryx2::sample_mut::SampleMut;
use iceoryx2_ffi_c::*;
use iceoryx2_pal_concurrency_sync::sim::{self, Decisions, Outcome, rng::Rng};
use serde_json::{Value, json};
use std::collections::BTreeMap;
use std::sync::{Arc, Mutex};

#[derive(Default)]
pub struct Errs {
    pub errs: Vec<(String, String)>,
    pub probes: BTreeMap<&'static str, u64>,
}
impl Errs {
    fn probe(&mut self, k: &'static str) {
        *self.probes.entry(k).or_default() += 1;
    }
    fn err(&mut self, c: &str, m: String) {
        if self.errs.len() < 4 {
            self.errs.push((c.into(), m));
        }
    }
}

fn cstr(p: *const core::ffi::c_char) -> String {
    if p.is_null() {
        return "<null>".into();
    }
    unsafe { core::ffi::CStr::from_ptr(p) }.to_string_lossy().to_string()
}

/// "ExceedsMaxLoans" -> "exceeds max loans"
fn words(debug_name: &str) -> String {
    let mut out = String::new();
    for (i, ch) in debug_name.chars().enumerate() {
        if ch.is_uppercase() && i > 0 {
            out.push(' ');
        }
        out.push(ch.to_ascii_lowercase());
    }
    out
}
/// does the printable name of the C code name the Rust error?
fn names_match(rust_debug: &str, c_name: &str) -> bool {
    let inner = rust_debug.trim_end_matches(')').rsplit('(').next().unwrap_or(rust_debug);
    let w = words(inner);
    let c = c_name.to_lowercase();
    let alias = |s: &str| s.replace("loaned samples", "loans").replace("loan error ", "");
    w == c || alias(&w) == alias(&c)
}

const ELEM: usize = 8;
fn fill(tag: u64, len: usize) -> Vec<u64> {
    (0..len).map(|i| if i == 0 { tag } else { tag ^ ((i as u64) << 40) ^ 0xC18 }).collect()
}

struct CSide {
    node: iox2_node_h,
    ps: iox2_port_factory_pub_sub_h,
    ev: iox2_port_factory_event_h,
    publisher: iox2_publisher_h,
    subscriber: iox2_subscriber_h,
    notifier: iox2_notifier_h,
    listener: iox2_listener_h,
    loans: Vec<(usize, iox2_sample_mut_h)>,
}

extern "C" fn collect_ids(id: *const iox2_event_id_t, _n: u64, ctx: iox2_callback_context) {
    let v = unsafe { &mut *(ctx as *mut Vec<usize>) };
    v.push(unsafe { (*id).value });
}

unsafe fn c_publisher(ps: &iox2_port_factory_pub_sub_h, max_loaned: usize, init_len: usize, strategy: i64) -> Result<iox2_publisher_h, i32> {
    unsafe {
        let b = iox2_port_factory_pub_sub_publisher_builder(ps, core::ptr::null_mut());
        iox2_port_factory_publisher_builder_set_max_loaned_samples(&b, max_loaned);
        iox2_port_factory_publisher_builder_set_initial_max_slice_len(&b, init_len);
        iox2_port_factory_publisher_builder_backpressure_strategy(&b, iox2_backpressure_strategy_e::DISCARD_DATA);
        match strategy {
            1 => iox2_port_factory_publisher_builder_set_allocation_strategy(&b, iox2_allocation_strategy_e::BEST_FIT),
            2 => iox2_port_factory_publisher_builder_set_allocation_strategy(&b, iox2_allocation_strategy_e::POWER_OF_TWO),
            _ => iox2_port_factory_publisher_builder_set_allocation_strategy(&b, iox2_allocation_strategy_e::STATIC),
        }
        let mut p: iox2_publisher_h = core::ptr::null_mut();
        let rc = iox2_port_factory_publisher_builder_create(b, core::ptr::null_mut(), &mut p);
        if rc == IOX2_OK { Ok(p) } else { Err(rc) }
    }
}

fn scenario<S: Service>(plan: &Plan, errs: &Arc<Mutex<Errs>>, service_type: iox2_service_type_e)
where
    Listener<S>: 'static,
{
    let config = isolated_config("fi");
    let p = |k: &str| plan.p(k) as usize;
    let (max_loaned, init_len, strategy, buffer) = (p("max_loaned").max(1), p("init_len").max(1), plan.p("strategy"), p("buffer").max(1));
    let deadline_ns = plan.p("deadline_ns") as u64;
    let c_creates = plan.p("c_creates") != 0;
    let name_ps = format!("vsim/ffi/ps/{}", plan.p("svc"));
    let name_ev = format!("vsim/ffi/ev/{}", plan.p("svc"));
    macro_rules! bail {
        ($($a:tt)*) => {{
            errs.lock().unwrap().err("setup", format!($($a)*));
            return;
        }};
    }
    // ---- Rust side
    let rnode = match NodeBuilder::new().config(&config).create::<S>() {
        Ok(n) => n,
        Err(e) => bail!("rust node: {e:?}"),
    };
    // ---- C side
    let mut c = CSide { node: core::ptr::null_mut(), ps: core::ptr::null_mut(), ev: core::ptr::null_mut(), publisher: core::ptr::null_mut(), subscriber: core::ptr::null_mut(), notifier: core::ptr::null_mut(), listener: core::ptr::null_mut(), loans: Vec::new() };
    unsafe {
        let mut ch: iox2_config_h = core::ptr::null_mut();
        iox2_config_from_ptr(&config as *const Config as iox2_config_ptr, core::ptr::null_mut(), &mut ch);
        let nb = iox2_node_builder_new(core::ptr::null_mut());
        iox2_node_builder_set_config(&nb, &ch);
        let rc = iox2_node_builder_create(nb, core::ptr::null_mut(), service_type, &mut c.node);
        iox2_config_drop(ch);
        if rc != IOX2_OK {
            bail!("C node creation failed with {rc}");
        }
    }
    let rust_ps_builder = || {
        rnode
            .service_builder(&ServiceName::new(&name_ps).unwrap())
            .publish_subscribe::<[u64]>()
            .max_publishers(3)
            .max_subscribers(3)
            .subscriber_max_buffer_size(buffer)
            .subscriber_max_borrowed_samples(buffer)
            .history_size(0)
            .enable_safe_overflow(false)
    };
    let rust_ev_builder = || {
        let b = rnode.service_builder(&ServiceName::new(&name_ev).unwrap()).event().max_notifiers(3).max_listeners(3).event_id_max_value(31);
        if deadline_ns > 0 { b.deadline(core::time::Duration::from_nanos(deadline_ns)) } else { b }
    };
    let c_ps = |create: bool| -> Result<iox2_port_factory_pub_sub_h, i32> {
        unsafe {
            let mut name: iox2_service_name_h = core::ptr::null_mut();
            if iox2_service_name_new(core::ptr::null_mut(), name_ps.as_ptr() as *const _, name_ps.len(), &mut name) != IOX2_OK {
                return Err(-1);
            }
            let b = iox2_node_service_builder(&c.node, core::ptr::null_mut(), iox2_cast_service_name_ptr(name));
            iox2_service_name_drop(name);
            let b = iox2_service_builder_pub_sub(b);
            let tn = "u64";
            let rc = iox2_service_builder_pub_sub_set_payload_type_details(&b, iox2_type_variant_e::DYNAMIC, tn.as_ptr() as *const _, tn.len(), ELEM, ELEM);
            if rc != IOX2_OK {
                return Err(rc);
            }
            iox2_service_builder_pub_sub_set_max_publishers(&b, 3);
            iox2_service_builder_pub_sub_set_max_subscribers(&b, 3);
            iox2_service_builder_pub_sub_set_subscriber_max_buffer_size(&b, buffer);
            iox2_service_builder_pub_sub_set_subscriber_max_borrowed_samples(&b, buffer);
            iox2_service_builder_pub_sub_set_history_size(&b, 0);
            iox2_service_builder_pub_sub_set_enable_safe_overflow(&b, false);
            let mut f: iox2_port_factory_pub_sub_h = core::ptr::null_mut();
            let rc = if create { iox2_service_builder_pub_sub_create(b, core::ptr::null_mut(), &mut f) } else { iox2_service_builder_pub_sub_open(b, core::ptr::null_mut(), &mut f) };
            if rc == IOX2_OK { Ok(f) } else { Err(rc) }
        }
    };
    let c_ev = |create: bool| -> Result<iox2_port_factory_event_h, i32> {
        unsafe {
            let mut name: iox2_service_name_h = core::ptr::null_mut();
            if iox2_service_name_new(core::ptr::null_mut(), name_ev.as_ptr() as *const _, name_ev.len(), &mut name) != IOX2_OK {
                return Err(-1);
            }
            let b = iox2_node_service_builder(&c.node, core::ptr::null_mut(), iox2_cast_service_name_ptr(name));
            iox2_service_name_drop(name);
            let b = iox2_service_builder_event(b);
            iox2_service_builder_event_set_max_notifiers(&b, 3);
            iox2_service_builder_event_set_max_listeners(&b, 3);
            iox2_service_builder_event_set_event_id_max_value(&b, 31);
            if deadline_ns > 0 {
                iox2_service_builder_event_set_deadline(&b, deadline_ns / 1_000_000_000, (deadline_ns % 1_000_000_000) as u32);
            }
            let mut f: iox2_port_factory_event_h = core::ptr::null_mut();
            let rc = if create { iox2_service_builder_event_create(b, core::ptr::null_mut(), &mut f) } else { iox2_service_builder_event_open(b, core::ptr::null_mut(), &mut f) };
            if rc == IOX2_OK { Ok(f) } else { Err(rc) }
        }
    };
    // one dialect creates with explicit settings, the other must be able to open with the same requirements
    let (rps, rev);
    if c_creates {
        c.ps = match c_ps(true) {
            Ok(f) => f,
            Err(rc) => bail!("C create of the publish-subscribe service failed with {rc}"),
        };
        c.ev = match c_ev(true) {
            Ok(f) => f,
            Err(rc) => bail!("C create of the event service failed with {rc}"),
        };
        rps = match rust_ps_builder().open() {
            Ok(s) => s,
            Err(e) => {
                errs.lock().unwrap().err("not-interchangeable", format!("the Rust API cannot open the publish-subscribe service the C API created with the same settings: {e:?}"));
                return;
            }
        };
        rev = match rust_ev_builder().open() {
            Ok(s) => s,
            Err(e) => {
                errs.lock().unwrap().err("not-interchangeable", format!("the Rust API cannot open the event service the C API created with the same settings: {e:?}"));
                return;
            }
        };
    } else {
        rps = match rust_ps_builder().create() {
            Ok(s) => s,
            Err(e) => bail!("rust create: {e:?}"),
        };
        rev = match rust_ev_builder().create() {
            Ok(s) => s,
            Err(e) => bail!("rust event create: {e:?}"),
        };
        c.ps = match c_ps(false) {
            Ok(f) => f,
            Err(rc) => {
                errs.lock().unwrap().err("not-interchangeable", format!("the C API cannot open the publish-subscribe service the Rust API created with the same settings: code {rc} ({})", cstr(unsafe { iox2_pub_sub_open_or_create_error_string(core::mem::transmute::<i32, iox2_pub_sub_open_or_create_error_e>(rc)) })));
                return;
            }
        };
        c.ev = match c_ev(false) {
            Ok(f) => f,
            Err(rc) => {
                errs.lock().unwrap().err("not-interchangeable", format!("the C API cannot open the event service the Rust API created with the same settings: code {rc}"));
                return;
            }
        };
    }
    // ---- ports
    let strat = match strategy {
        1 => AllocationStrategy::BestFit,
        2 => AllocationStrategy::PowerOfTwo,
        _ => AllocationStrategy::Static,
    };
    let mk_rpub = || rps.publisher_builder().max_loaned_samples(max_loaned).initial_max_slice_len(init_len).allocation_strategy(strat).backpressure_strategy(BackpressureStrategy::DiscardData).create();
    let mut rpub: Publisher<S, [u64], ()> = match mk_rpub() {
        Ok(x) => x,
        Err(e) => bail!("rust publisher: {e:?}"),
    };
    let rsub: Subscriber<S, [u64], ()> = match rps.subscriber_builder().buffer_size(buffer).create() {
        Ok(x) => x,
        Err(e) => bail!("rust subscriber: {e:?}"),
    };
    let rnot: Notifier<S> = match rev.notifier_builder().create() {
        Ok(x) => x,
        Err(e) => bail!("rust notifier: {e:?}"),
    };
    let rlst: Listener<S> = match rev.listener_builder().create() {
        Ok(x) => x,
        Err(e) => bail!("rust listener: {e:?}"),
    };
    unsafe {
        c.publisher = match c_publisher(&c.ps, max_loaned, init_len, strategy) {
            Ok(x) => x,
            Err(rc) => bail!("C publisher: {rc}"),
        };
        let sb = iox2_port_factory_pub_sub_subscriber_builder(&c.ps, core::ptr::null_mut());
        iox2_port_factory_subscriber_builder_set_buffer_size(&sb, buffer);
        if iox2_port_factory_subscriber_builder_create(sb, core::ptr::null_mut(), &mut c.subscriber) != IOX2_OK {
            bail!("C subscriber");
        }
        let nb = iox2_port_factory_event_notifier_builder(&c.ev, core::ptr::null_mut());
        if iox2_port_factory_notifier_builder_create(nb, core::ptr::null_mut(), &mut c.notifier) != IOX2_OK {
            bail!("C notifier");
        }
        let lb = iox2_port_factory_event_listener_builder(&c.ev, core::ptr::null_mut());
        if iox2_port_factory_listener_builder_create(lb, core::ptr::null_mut(), &mut c.listener) != IOX2_OK {
            bail!("C listener");
        }
    }
    let connect_all = |rsub: &Subscriber<S, [u64], ()>, csub: &iox2_subscriber_h| {
        use iceoryx2::port::update_connections::UpdateConnections;
        let _ = rsub.update_connections();
        let mut b = false;
        unsafe { iox2_subscriber_has_samples(csub, &mut b) };
    };
    connect_all(&rsub, &c.subscriber);
    let mut rloans: Vec<(usize, SampleMut<S, [u64], ()>)> = Vec::new();
    let mut tag: u64 = 0;
    // tags sent by (rust publisher, C publisher) -> length
    let mut sent: BTreeMap<u64, usize> = BTreeMap::new();

    for (opi, o) in plan.threads[0].iter().enumerate() {
        let what = format!("op #{opi} {}{:?}", o.c, o.a);
        crate::kit::crashnote::set(&what);
        let mut e = errs.lock().unwrap();
        match o.c.as_str() {
            "loan" => {
                let len = (o.arg(0) as usize).max(1);
                let rr = rpub.loan_slice_uninit(len);
                let mut ch: iox2_sample_mut_h = core::ptr::null_mut();
                let rc = unsafe { iox2_publisher_loan_slice_uninit(&c.publisher, core::ptr::null_mut(), &mut ch, len) };
                match (rr, rc) {
                    (Ok(l), IOX2_OK) => {
                        e.probe("loan_ok_both");
                        let l = l.write_from_fn(|_| 0);
                        let mut pp: *mut c_void = core::ptr::null_mut();
                        let mut n = 0usize;
                        unsafe { iox2_sample_mut_payload_mut(&ch, &mut pp, &mut n) };
                        let bytes = unsafe { iox2_sample_mut_payload_number_of_bytes(&ch) };
                        if n != len || bytes != len * ELEM || l.payload().len() != len {
                            e.err("loan-differs", format!("{what}: a loan of {len} elements: the Rust API gives {} elements, the C API {n} elements / {bytes} bytes", l.payload().len()));
                        }
                        if (pp as usize) % ELEM != 0 {
                            e.err("loan-differs", format!("{what}: the C loan's payload pointer {pp:p} is not aligned to {ELEM}"));
                        }
                        rloans.push((len, l));
                        c.loans.push((len, ch));
                    }
                    (Err(re), rc) if rc != IOX2_OK => {
                        e.probe("loan_refused_both");
                        let cname = cstr(unsafe { iox2_loan_error_string(core::mem::transmute::<i32, iox2_loan_error_e>(rc)) });
                        if !names_match(&format!("{re:?}"), &cname) {
                            e.err("error-name", format!("{what}: the Rust API fails with {re:?}, the C API with code {rc} named {cname:?}"));
                        }
                    }
                    (Ok(_), rc) => e.err("outcome-differs", format!("{what}: the Rust loan succeeded, the C loan failed with code {rc} ({}) — both publishers have {} of {max_loaned} loans out", cstr(unsafe { iox2_loan_error_string(core::mem::transmute::<i32, iox2_loan_error_e>(rc)) }), rloans.len())),
                    (Err(re), _) => {
                        unsafe { iox2_sample_mut_drop(ch) };
                        e.err("outcome-differs", format!("{what}: the Rust loan failed with {re:?}, the C loan succeeded — both publishers have {} of {max_loaned} loans out", rloans.len()))
                    }
                }
            }
            "drop_loan" => {
                if !rloans.is_empty() {
                    let k = o.arg(0) as usize % rloans.len();
                    drop(rloans.remove(k));
                    let (_, h) = c.loans.remove(k);
                    unsafe { iox2_sample_mut_drop(h) };
                    e.probe("loan_dropped_both");
                }
            }
            "send_loan" | "send_copy" => {
                let use_loan = o.c == "send_loan" && !rloans.is_empty();
                let (rlen, rres, clen, cres): (usize, Result<usize, String>, usize, (i32, usize));
                tag += 2;
                let (rt, ct) = (0xA000_0000 + tag, 0xA000_0000 + tag + 1);
                if use_loan {
                    let k = o.arg(0) as usize % rloans.len();
                    let (len, mut l) = rloans.remove(k);
                    for (i, x) in fill(rt, len).into_iter().enumerate() {
                        l.payload_mut()[i] = x;
                    }
                    rlen = len;
                    rres = l.send().map_err(|x| format!("{x:?}"));
                    let (len2, h) = c.loans.remove(k);
                    let mut pp: *mut c_void = core::ptr::null_mut();
                    let mut n = 0usize;
                    unsafe { iox2_sample_mut_payload_mut(&h, &mut pp, &mut n) };
                    let data = fill(ct, len2);
                    unsafe { core::ptr::copy_nonoverlapping(data.as_ptr(), pp as *mut u64, len2.min(n)) };
                    let mut rec = 0usize;
                    let rc = unsafe { iox2_sample_mut_send(h, &mut rec) };
                    clen = len2;
                    cres = (rc, rec);
                } else {
                    let len = (o.arg(1) as usize).max(1);
                    if rloans.len() >= max_loaned {
                        continue; // a send_copy needs a free loan in both dialects
                    }
                    let data = fill(rt, len);
                    rlen = len;
                    rres = match rpub.loan_slice_uninit(len) {
                        Ok(l) => l.write_from_fn(|i| data[i]).send().map_err(|x| format!("{x:?}")),
                        Err(x) => Err(format!("{x:?}")),
                    };
                    let data = fill(ct, len);
                    let mut rec = 0usize;
                    let rc = unsafe { iox2_publisher_send_slice_copy(&c.publisher, data.as_ptr() as *const c_void, ELEM, len, &mut rec) };
                    clen = len;
                    cres = (rc, rec);
                }
                match (&rres, cres) {
                    (Ok(n), (IOX2_OK, m)) => {
                        e.probe("sent_both");
                        sent.insert(rt, rlen);
                        sent.insert(ct, clen);
                        // the C send happened after the Rust send filled the buffers; counts may differ only by that
                        if *n < m {
                            e.err("count-differs", format!("{what}: the Rust send reached {n} subscribers, the later C send {m}"));
                        }
                    }
                    (Err(re), (rc, _)) if rc != IOX2_OK => {
                        e.probe("send_refused_both");
                        let cname = cstr(unsafe { iox2_send_error_string(core::mem::transmute::<i32, iox2_send_error_e>(rc)) });
                        if !use_loan {
                            // documented: the copy functions return iox2_send_error_e codes
                            if !names_match(re, &cname) {
                                e.err("error-name", format!("{what}: the Rust API fails with {re}, the C API with code {rc} named {cname:?}"));
                            }
                        }
                    }
                    (Ok(n), (rc, _)) => e.err("outcome-differs", format!("{what}: the Rust send succeeded ({n} recipients), the C send of {clen} elements failed with code {rc} ({})", cstr(unsafe { iox2_send_error_string(core::mem::transmute::<i32, iox2_send_error_e>(rc)) }))),
                    (Err(re), (_, m)) => e.err("outcome-differs", format!("{what}: the Rust send of {rlen} elements failed with {re}, the C send succeeded ({m} recipients)")),
                }
            }
            "recv" => {
                // both subscribers drain; each must have seen the same samples with the same content
                let mut rseen: Vec<(u64, usize, Vec<u64>)> = Vec::new();
                loop {
                    match rsub.receive() {
                        Ok(Some(s)) => {
                            let pl = s.payload().to_vec();
                            rseen.push((pl[0], s.header().number_of_elements() as usize, pl));
                        }
                        Ok(None) => break,
                        Err(x) => {
                            e.err("receive-error", format!("{what}: Rust receive failed with {x:?}"));
                            break;
                        }
                    }
                }
                let mut cseen: Vec<(u64, usize, Vec<u64>)> = Vec::new();
                loop {
                    let mut h: iox2_sample_h = core::ptr::null_mut();
                    let rc = unsafe { iox2_subscriber_receive(&c.subscriber, core::ptr::null_mut(), &mut h) };
                    if rc != IOX2_OK {
                        e.err("receive-error", format!("{what}: C receive failed with code {rc} ({})", cstr(unsafe { iox2_receive_error_string(core::mem::transmute::<i32, iox2_receive_error_e>(rc)) })));
                        break;
                    }
                    if h.is_null() {
                        break;
                    }
                    let mut pp: *const c_void = core::ptr::null();
                    let mut n = 0usize;
                    unsafe { iox2_sample_payload(&h, &mut pp, &mut n) };
                    let bytes = unsafe { iox2_sample_payload_number_of_bytes(&h) };
                    let mut hh: iox2_publish_subscribe_header_h = core::ptr::null_mut();
                    unsafe { iox2_sample_header(&h, core::ptr::null_mut(), &mut hh) };
                    let hn = unsafe { iox2_publish_subscribe_header_number_of_elements(&hh) } as usize;
                    unsafe { iox2_publish_subscribe_header_drop(hh) };
                    let data = unsafe { core::slice::from_raw_parts(pp as *const u64, bytes / ELEM) }.to_vec();
                    if n != hn || n * ELEM != bytes {
                        e.err("element-count", format!("{what}: the C sample reports {n} elements, its header {hn}, its payload {bytes} bytes (element size {ELEM})"));
                    }
                    cseen.push((data.first().copied().unwrap_or(0), n, data));
                    unsafe { iox2_sample_drop(h) };
                }
                e.probe("received_both");
                for (who, seen) in [("Rust", &rseen), ("C", &cseen)] {
                    for (t, n, data) in seen.iter() {
                        match sent.get(t) {
                            None => e.err("corrupt", format!("{what}: the {who} subscriber received a sample starting {t:#x} that nobody sent")),
                            Some(len) => {
                                if *n != *len || *data != fill(*t, *len) {
                                    e.err("payload-differs", format!("{what}: sample {t:#x} was sent with {len} elements; the {who} subscriber sees {n} elements, data {:x?}", &data[..data.len().min(4)]));
                                }
                            }
                        }
                    }
                }
                // per publisher (even tags: Rust publisher, odd tags: C publisher) both subscribers see the same
                // sequence; how a subscriber interleaves its connections is its own round-robin state
                for parity in 0..2u64 {
                    let rt: Vec<u64> = rseen.iter().map(|x| x.0).filter(|t| t % 2 == parity).collect();
                    let ct: Vec<u64> = cseen.iter().map(|x| x.0).filter(|t| t % 2 == parity).collect();
                    if rt != ct {
                        e.err("order-differs", format!("{what}: from the {} publisher the Rust subscriber received {rt:x?}, the C subscriber {ct:x?}", if parity == 0 { "Rust" } else { "C" }));
                    }
                }
            }
            "notify" => {
                let id = o.arg(0) as usize % 40;
                // who goes first is seeded: with a deadline the first caller may miss it (and thereby reset it)
                let c_first = o.arg(1) % 2 == 1;
                let cid = iox2_event_id_t { value: id };
                let mut n = 0usize;
                let mut rc = 0;
                if c_first {
                    rc = unsafe { iox2_notifier_notify_with_custom_event_id(&c.notifier, &cid, &mut n) };
                }
                let rr = rnot.notify_with_custom_event_id(EventId::new(id));
                if !c_first {
                    rc = unsafe { iox2_notifier_notify_with_custom_event_id(&c.notifier, &cid, &mut n) };
                }
                match (rr, rc) {
                    (Ok(a), IOX2_OK) => {
                        e.probe("notified_both");
                        if a != n {
                            e.err("count-differs", format!("{what}: the Rust notifier reached {a} listeners, the C notifier {n}"));
                        }
                    }
                    (Err(re), rc) if rc != IOX2_OK => {
                        e.probe("notify_refused_both");
                        let cname = cstr(unsafe { iox2_notifier_notify_error_string(core::mem::transmute::<i32, iox2_notifier_notify_error_e>(rc)) });
                        if !names_match(&format!("{re:?}"), &cname) {
                            e.err("error-name", format!("{what}: the Rust API fails with {re:?}, the C API with code {rc} named {cname:?}"));
                        }
                    }
                    (Ok(a), rc) => {
                        let cname = cstr(unsafe { iox2_notifier_notify_error_string(core::mem::transmute::<i32, iox2_notifier_notify_error_e>(rc)) });
                        if c_first && deadline_ns > 0 && id <= 31 {
                            // the only failure that the first caller can have alone: it missed the deadline
                            e.probe("deadline_missed_by_first_caller_only");
                            if !names_match("MissedDeadline", &cname) {
                                e.err("error-name", format!("{what}: the C notifier went first after the deadline had passed; the Rust API reports that as MissedDeadline, the C API returned code {rc} named {cname:?}"));
                            }
                        } else {
                            e.err("outcome-differs", format!("{what}: the Rust notify succeeded ({a}), the C notify failed with code {rc} ({cname})"));
                        }
                    }
                    (Err(re), _) => {
                        // with a deadline the first of the two calls may miss it and reset it for the second
                        if format!("{re:?}").contains("MissedDeadline") && !c_first {
                            e.probe("deadline_missed_by_first_caller_only");
                        } else {
                            e.err("outcome-differs", format!("{what}: the Rust notify failed with {re:?}, the C notify succeeded ({n})"));
                        }
                    }
                }
            }
            "wait" => {
                let mut r_ids: Vec<usize> = Vec::new();
                if let Err(x) = rlst.try_wait(|id| r_ids.push(id.id.as_value())) {
                    e.err("wait-error", format!("{what}: Rust try_wait failed with {x:?}"));
                }
                let mut c_ids: Vec<usize> = Vec::new();
                let mut total = 0u64;
                let rc = unsafe { iox2_listener_try_wait(&c.listener, &mut total, collect_ids, &mut c_ids as *mut Vec<usize> as *mut c_void) };
                if rc != IOX2_OK {
                    e.err("wait-error", format!("{what}: C try_wait failed with code {rc}"));
                }
                r_ids.sort();
                c_ids.sort();
                e.probe("waited_both");
                if r_ids != c_ids {
                    e.err("events-differ", format!("{what}: the Rust listener received ids {r_ids:?}, the C listener {c_ids:?} from the same two notifiers"));
                }
            }
            "advance" => sim::advance_ns(o.arg(0) as u64),
            "recreate_c_publisher" => {
                // dropping a C handle releases exactly the object it wraps
                let before = rps.dynamic_config().number_of_publishers();
                for (_, h) in c.loans.drain(..) {
                    unsafe { iox2_sample_mut_drop(h) };
                }
                rloans.clear();
                unsafe { iox2_publisher_drop(c.publisher) };
                let after = rps.dynamic_config().number_of_publishers();
                if after + 1 != before {
                    e.err("handle-release", format!("{what}: dropping the C publisher handle changed the number of publishers of the service from {before} to {after}"));
                }
                drop(rpub);
                rpub = match mk_rpub() {
                    Ok(x) => x,
                    Err(x) => {
                        e.err("handle-release", format!("{what}: re-creating the Rust publisher failed with {x:?}"));
                        return;
                    }
                };
                c.publisher = match unsafe { c_publisher(&c.ps, max_loaned, init_len, strategy) } {
                    Ok(x) => x,
                    Err(rc) => {
                        e.err("handle-release", format!("{what}: re-creating the C publisher failed with code {rc} ({}) although the old handle was dropped", cstr(unsafe { iox2_publisher_create_error_string(core::mem::transmute::<i32, iox2_publisher_create_error_e>(rc)) })));
                        return;
                    }
                };
                connect_all(&rsub, &c.subscriber);
                e.probe("c_publisher_recreated");
            }
            _ => {}
        }
        if !e.errs.is_empty() {
            break;
        }
    }
    crate::kit::crashnote::set("tear-down");
    drop(rloans);
    unsafe {
        for (_, h) in c.loans.drain(..) {
            iox2_sample_mut_drop(h);
        }
        iox2_publisher_drop(c.publisher);
        iox2_subscriber_drop(c.subscriber);
        iox2_notifier_drop(c.notifier);
        iox2_listener_drop(c.listener);
        iox2_port_factory_pub_sub_drop(c.ps);
        iox2_port_factory_event_drop(c.ev);
        iox2_node_drop(c.node);
    }
    drop(rpub);
    drop(rsub);
    drop(rnot);
    drop(rlst);
    drop(rps);
    drop(rev);
    drop(rnode);
}

pub struct FfiHarness {
    pub ipc: bool,
}
impl Harness for FfiHarness {
    fn name(&self) -> &'static str {
        if self.ipc { "c18.ffi_equivalence_ipc" } else { "c18.ffi_equivalence_local" }
    }
    fn property(&self) -> &'static str {
        "C18"
    }
    fn modes(&self) -> Vec<(&'static str, u32, bool)> {
        vec![("seq", 1, true)]
    }
    fn quick_runs(&self) -> u64 {
        if self.ipc { 1500 } else { 2000 }
    }
    fn isolate(&self) -> bool {
        true
    }
    fn components(&self) -> Value {
        json!({"real": ["iceoryx2-ffi-c extern \"C\" functions (node, service builders, publisher, subscriber, sample, sample_mut, notifier, listener, config, error-string tables) called directly; the Rust API on the same services"], "stub": ["clock", "pid", "the C caller is Rust code calling the exported functions, not a C compiler's output"]})
    }
    fn generate(&self, r: &mut Rng, mode: &str) -> (Plan, CfgSer) {
        let mut params = BTreeMap::new();
        params.insert("max_loaned".into(), r.range(1, 3));
        params.insert("init_len".into(), r.range(1, 12));
        params.insert("strategy".into(), r.range(0, 2));
        params.insert("buffer".into(), r.range(2, 8));
        params.insert("deadline_ns".into(), if r.chance(0.5) { r.range(1_000, 5_000_000) } else { 0 });
        params.insert("c_creates".into(), r.chance(0.5) as i64);
        params.insert("svc".into(), r.range(0, 1_000_000));
        let init = params["init_len"];
        let mut ops = Vec::new();
        for _ in 0..r.range(8, 45) {
            let k = r.below(100);
            let len = if r.chance(0.2) { r.range(1, init * 3) } else { r.range(1, init) };
            let op = if k < 18 {
                Op::new("loan", &[len])
            } else if k < 24 {
                Op::new("drop_loan", &[r.range(0, 3)])
            } else if k < 38 {
                Op::new("send_loan", &[r.range(0, 3), len])
            } else if k < 52 {
                Op::new("send_copy", &[0, len])
            } else if k < 68 {
                Op::new("recv", &[])
            } else if k < 80 {
                Op::new("notify", &[r.range(0, 39), r.range(0, 1)])
            } else if k < 90 {
                Op::new("wait", &[])
            } else if k < 96 {
                Op::new("advance", &[r.range(1, 10_000_000)])
            } else {
                Op::new("recreate_c_publisher", &[])
            };
            ops.push(op);
        }
        let plan = Plan { harness: self.name().into(), mode: mode.into(), params, threads: vec![ops] };
        let mut cfg = CfgSer::base();
        cfg.step_cap = 6_000_000;
        (plan, cfg)
    }
    fn execute(&self, plan: &Plan, cfg: &CfgSer, dec: Decisions) -> RunResult {
        let errs = Arc::new(Mutex::new(Errs::default()));
        let e2 = errs.clone();
        let plan2 = plan.clone();
        let ipc = self.ipc;
        crate::kit::crashnote::install_segv_reporter();
        let report = sim_run(cfg.to_cfg(), dec, move || {
            if ipc {
                scenario::<ipc::Service>(&plan2, &e2, iox2_service_type_e::IPC)
            } else {
                scenario::<local::Service>(&plan2, &e2, iox2_service_type_e::LOCAL)
            }
        });
        let pid = unsafe { libc::getpid() };
        let left = leftovers("fi", pid);
        remove_leftovers("fi", pid);
        #[allow(unused_mut)]
        let mut g = take_after_run(&errs);
        let root = root_of(pid);
        let unexpected: Vec<String> = left.iter().filter(|p| !(**p == format!("{root}/nodes") || **p == format!("{root}/services") || p.contains("global_mgmt"))).cloned().collect();
        if g.errs.is_empty() && report.outcome == Outcome::Ok && !unexpected.is_empty() {
            g.err("handle-release", format!("after every C handle and Rust object was dropped these resources remain: {unexpected:?}"));
        }
        let mut violation = g.errs.first().map(|(c, m)| Violation { class: c.clone(), msg: m.clone() });
        let mut inconclusive = false;
        if violation.is_none() {
            match &report.outcome {
                Outcome::Ok => {}
                Outcome::StepCap => inconclusive = true,
                Outcome::Deadlock { blocked } => violation = viol("deadlock", format!("threads {blocked:?} blocked for ever")),
                Outcome::Panic { thread, msg } => violation = viol("panic", format!("thread {thread} panicked: {}", &msg[..msg.len().min(400)])),
            }
        }
        let mut report = report;
        report.chooses = plan.ops() as u64;
        report.sched_sig = hash_str(&serde_json::to_string(plan).unwrap());
        let probes = g.probes.iter().map(|(k, v)| (*k, *v)).collect();
        RunResult { report, violation, beyond: None, probes, inconclusive }
    }
}
