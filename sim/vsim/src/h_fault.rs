// System-call faults inside publish-subscribe and request-response operations (E-api; DESIGN.md §4.4, §13.1).
// A seeded history creates receivers over time; around seeded sends / port creations the n-th eligible system
// call (shm_open, open, ftruncate, mmap, mkdir, fchmod) is made to fail with a seeded errno. The oracle is
// relaxed deliberately and narrowly:
//   * the faulted operation itself may fail with a documented error or succeed, and the receiver whose
//     connection was being established while the fault fired ("affected") may miss samples;
//   * everybody else is judged exactly: a receiver that was connected before (or was connected by a fault-free
//     operation) receives every later sample of the sender, in order, uncorrupted, exactly once — also the ones
//     sent by the faulted operation and after it (C01/C11);
//   * a failed operation holds no resources: a refused request does not count as active, a failed port creation
//     does not occupy a port slot, loans are not leaked (C02/C08);
//   * nothing panics, crashes or blocks.
// Fault-free runs of the same histories are the baseline (mode "nofault"), so the relaxation hides no ordinary bug.
use crate::h_ps::{isolated_config, leftovers, remove_leftovers};
use crate::kit::*;
use iceoryx2::port::DegradationAction;
use iceoryx2::port::client::Client;
use iceoryx2::port::publisher::Publisher;
use iceoryx2::port::server::Server;
use iceoryx2::port::subscriber::Subscriber;
use iceoryx2::prelude::*;
use iceoryx2_pal_concurrency_sync::sim::{Decisions, Outcome, faults, rng::Rng};
use serde_json::{Value, json};
use std::collections::BTreeMap;
use std::sync::{Arc, Mutex};

#[derive(Default)]
pub struct Errs {
    pub c01: Vec<(String, String)>,
    pub c08: Vec<(String, String)>,
    pub c11: Vec<(String, String)>,
    pub probes: BTreeMap<&'static str, u64>,
}
impl Errs {
    fn probe(&mut self, k: &'static str) {
        *self.probes.entry(k).or_default() += 1;
    }
}

const ERRNOS: &[i32] = &[libc::ENOMEM, libc::EMFILE, libc::ENFILE, libc::ENOSPC, libc::EACCES, libc::EINTR, libc::ENOENT];

fn action(k: i64) -> DegradationAction {
    match k {
        0 => DegradationAction::Ignore,
        1 => DegradationAction::Warn,
        _ => DegradationAction::DegradeAndFail,
    }
}

struct SubState<S: Service> {
    s: Subscriber<S, [u64; 2], ()>,
    /// connected to the publisher by a fault-free operation; from which sequence number on
    healthy_from: Option<u64>,
    affected: bool,
    last_seq: u64,
}

fn pubsub<S: Service>(plan: &Plan, errs: &Arc<Mutex<Errs>>) {
    let config = isolated_config("ft");
    let node = match NodeBuilder::new().config(&config).create::<S>() {
        Ok(n) => n,
        Err(e) => {
            errs.lock().unwrap().c01.push(("setup".into(), format!("node: {e:?}")));
            return;
        }
    };
    let sname: ServiceName = format!("vsim/ft/{}", plan.p("svc")).as_str().try_into().unwrap();
    let service = match node.service_builder(&sname).publish_subscribe::<[u64; 2]>().max_publishers(2).max_subscribers(4).subscriber_max_buffer_size(64).subscriber_max_borrowed_samples(4).enable_safe_overflow(false).create() {
        Ok(s) => s,
        Err(e) => {
            errs.lock().unwrap().c01.push(("setup".into(), format!("service: {e:?}")));
            return;
        }
    };
    let act = plan.p("action");
    let mk_pub = || service.publisher_builder().max_loaned_samples(2).backpressure_strategy(BackpressureStrategy::DiscardData).set_degradation_handler(move |_, _| action(act)).create();
    let mut publisher: Option<Publisher<S, [u64; 2], ()>> = mk_pub().ok();
    let mut subs: Vec<Option<SubState<S>>> = vec![None, None, None, None];
    let mut seq = 0u64;
    for (opi, o) in plan.threads[0].iter().enumerate() {
        let what = format!("op #{opi} {}{:?} (degradation action {:?})", o.c, o.a, plan.p("action"));
        crate::kit::crashnote::set(&what);
        let mut e = errs.lock().unwrap();
        let fault = o.arg(1) > 0;
        if fault {
            faults::arm(o.arg(1) as u64, ERRNOS[o.arg(2) as usize % ERRNOS.len()]);
        }
        match o.c.as_str() {
            "sub" => {
                let i = o.arg(0) as usize % subs.len();
                if subs[i].is_none() {
                    let alive = subs.iter().flatten().count();
                    let r = service.subscriber_builder().buffer_size(64).create();
                    let (fired, _) = faults::disarm();
                    match r {
                        Ok(s) => {
                            e.probe("subscriber_created");
                            subs[i] = Some(SubState { s, healthy_from: None, affected: fired.is_some(), last_seq: 0 });
                        }
                        Err(err) => {
                            if fired.is_none() && alive < 4 {
                                e.c08.push(("spurious-failure".into(), format!("{what}: subscriber creation failed with {err:?} without any injected fault ({alive} of 4 alive)")));
                            } else {
                                e.probe("subscriber_creation_failed_under_fault");
                            }
                        }
                    }
                }
            }
            "dsub" => {
                let i = o.arg(0) as usize % subs.len();
                subs[i] = None;
            }
            "send" => {
                if publisher.is_none() {
                    // a failed creation must not occupy the port slot
                    let r = mk_pub();
                    let (fired, _) = faults::disarm();
                    match r {
                        Ok(p) => publisher = Some(p),
                        Err(err) => {
                            if fired.is_none() {
                                e.c08.push(("slot-leaked".into(), format!("{what}: re-creating the publisher without a fault failed with {err:?} — an earlier failed creation still occupies a slot")));
                            }
                        }
                    }
                    continue;
                }
                let p = publisher.as_ref().unwrap();
                seq += 1;
                let unconnected: Vec<usize> = (0..subs.len()).filter(|i| subs[*i].as_ref().map(|s| s.healthy_from.is_none() && !s.affected).unwrap_or(false)).collect();
                let r = p.send_copy([seq, !seq]);
                let (fired, seen) = faults::disarm();
                if fired.is_some() {
                    e.probe("fault_fired_inside_send");
                } else if fault {
                    e.probe("fault_armed_but_no_eligible_call");
                }
                let _ = seen;
                match (&r, &fired) {
                    (Ok(_), None) => {
                        // a fault-free send connects every subscriber that exists
                        for i in unconnected {
                            subs[i].as_mut().unwrap().healthy_from = Some(seq);
                        }
                    }
                    (_, Some(_)) => {
                        // the subscribers whose connection was due in this call may have been hit
                        for i in unconnected {
                            subs[i].as_mut().unwrap().affected = true;
                        }
                        if r.is_err() {
                            e.probe("send_failed_under_fault");
                        }
                    }
                    (Err(err), None) => {
                        if !unconnected.is_empty() || subs.iter().flatten().any(|s| s.affected) {
                            // a connection that could not be established earlier is retried by later sends
                            e.probe("send_failed_retrying_broken_connection");
                        } else {
                            e.c01.push(("send-error".into(), format!("{what}: send failed with {err:?} although no fault was injected and every subscriber is connected")));
                        }
                    }
                }
            }
            "recv" => {
                let i = o.arg(0) as usize % subs.len();
                let _ = faults::disarm();
                if let Some(st) = subs[i].as_mut() {
                    loop {
                        match st.s.receive() {
                            Ok(Some(x)) => {
                                let pl = *x.payload();
                                e.probe("received");
                                if pl[1] != !pl[0] || pl[0] == 0 || pl[0] > seq {
                                    e.c01.push(("corrupt".into(), format!("{what}: subscriber {i} received {pl:x?}, which was never sent")));
                                }
                                if pl[0] <= st.last_seq {
                                    e.c01.push(("order".into(), format!("{what}: subscriber {i} received sequence number {} after {}", pl[0], st.last_seq)));
                                }
                                // healthy receivers: no gap (failed sends excluded: they are recorded as sent to nobody or everybody)
                                st.last_seq = pl[0];
                            }
                            Ok(None) => break,
                            Err(err) => {
                                if !st.affected {
                                    e.c01.push(("receive-error".into(), format!("{what}: receive of the unaffected subscriber {i} failed with {err:?}")));
                                }
                                break;
                            }
                        }
                    }
                }
            }
            _ => {
                let _ = faults::disarm();
            }
        }
        let _ = faults::disarm();
        if !e.c01.is_empty() || !e.c08.is_empty() {
            break;
        }
    }
    let _ = faults::disarm();
    // epilogue without faults: healthy subscribers have received everything that was sent successfully since
    // they were connected — checked through counting: send `k` more samples and drain; every healthy subscriber
    // must see exactly these k, in order
    if let Some(p) = publisher.as_ref() {
        let mut e = errs.lock().unwrap();
        if e.c01.is_empty() && e.c08.is_empty() {
            for st in subs.iter_mut().flatten() {
                while let Ok(Some(x)) = st.s.receive() {
                    st.last_seq = x.payload()[0];
                }
            }
            let base = seq;
            let mut ok_sends = 0;
            for _ in 0..3 {
                seq += 1;
                if p.send_copy([seq, !seq]).is_ok() {
                    ok_sends += 1;
                }
            }
            for (i, st) in subs.iter_mut().enumerate() {
                let Some(st) = st else { continue };
                let mut got = Vec::new();
                while let Ok(Some(x)) = st.s.receive() {
                    got.push(x.payload()[0]);
                }
                let healthy = st.healthy_from.is_some() && !st.affected;
                if healthy && ok_sends == 3 && got != vec![base + 1, base + 2, base + 3] {
                    e.c01.push(("healthy-subscriber-starved".into(), format!("epilogue: subscriber {i} was connected by a fault-free send and never involved in a failure, yet of the final samples {:?} it received {got:?} (degradation action {})", [base + 1, base + 2, base + 3], plan.p("action"))));
                }
                if healthy {
                    e.probe("healthy_subscriber_checked");
                } else {
                    e.probe("affected_subscriber_skipped");
                }
            }
            // loans are not leaked by failed sends
            let mut loans = Vec::new();
            for _ in 0..2 {
                match p.loan() {
                    Ok(l) => loans.push(l),
                    Err(err) => {
                        e.c08.push(("loan-leaked".into(), format!("epilogue: with no loan outstanding only {} of 2 loans succeeded ({err:?}) — a failed send kept its loan", loans.len())));
                        break;
                    }
                }
            }
        }
    }
}

fn reqresp<S: Service>(plan: &Plan, errs: &Arc<Mutex<Errs>>) {
    let config = isolated_config("ft");
    let node = match NodeBuilder::new().config(&config).create::<S>() {
        Ok(n) => n,
        Err(e) => {
            errs.lock().unwrap().c11.push(("setup".into(), format!("node: {e:?}")));
            return;
        }
    };
    let sname: ServiceName = format!("vsim/ftrr/{}", plan.p("svc")).as_str().try_into().unwrap();
    let max_active = plan.p("max_active").max(1) as usize;
    let service = match node.service_builder(&sname).request_response::<u64, u64>().max_clients(2).max_servers(3).max_active_requests_per_client(max_active).create() {
        Ok(s) => s,
        Err(e) => {
            errs.lock().unwrap().c11.push(("setup".into(), format!("service: {e:?}")));
            return;
        }
    };
    let act = plan.p("action");
    let client: Client<S, u64, (), u64, ()> = match service.client_builder().backpressure_strategy(BackpressureStrategy::DiscardData).set_request_degradation_handler(move |_, _| action(act)).set_response_degradation_handler(move |_, _| action(act)).create() {
        Ok(c) => c,
        Err(e) => {
            errs.lock().unwrap().c11.push(("setup".into(), format!("client: {e:?}")));
            return;
        }
    };
    let mut servers: Vec<Option<Server<S, u64, (), u64, ()>>> = vec![None, None, None];
    let mut pending = Vec::new();
    let mut seq = 0u64;
    for (opi, o) in plan.threads[0].iter().enumerate() {
        let what = format!("op #{opi} {}{:?} (degradation action {}, max_active_requests_per_client {max_active})", o.c, o.a, plan.p("action"));
        crate::kit::crashnote::set(&what);
        let mut e = errs.lock().unwrap();
        if o.arg(1) > 0 {
            faults::arm(o.arg(1) as u64, ERRNOS[o.arg(2) as usize % ERRNOS.len()]);
        }
        match o.c.as_str() {
            "srv" => {
                let i = o.arg(0) as usize % servers.len();
                if servers[i].is_none() {
                    let r = service.server_builder().create();
                    let (fired, _) = faults::disarm();
                    match r {
                        Ok(s) => servers[i] = Some(s),
                        Err(err) => {
                            if fired.is_none() {
                                e.c08.push(("spurious-failure".into(), format!("{what}: server creation failed with {err:?} without any injected fault")));
                            }
                        }
                    }
                }
            }
            "dsrv" => {
                let i = o.arg(0) as usize % servers.len();
                servers[i] = None;
            }
            "req" => {
                seq += 1;
                let r = client.send_copy(seq);
                let (fired, _) = faults::disarm();
                match r {
                    Ok(p) => {
                        e.probe("request_sent");
                        if pending.len() >= max_active {
                            e.c08.push(("limit-not-enforced".into(), format!("{what}: request sent although {} of {max_active} are active", pending.len())));
                        }
                        pending.push(p);
                    }
                    Err(iceoryx2::port::client::RequestSendError::ExceedsMaxActiveRequests) => {
                        e.probe("request_refused_max_active");
                        if pending.len() < max_active {
                            e.c08.push(("failed-request-counted-as-active".into(), format!("{what}: ExceedsMaxActiveRequests although only {} of {max_active} requests are active — an earlier request that failed is still counted", pending.len())));
                        }
                    }
                    Err(err) => {
                        if fired.is_some() {
                            e.probe("request_failed_under_fault");
                        } else {
                            e.probe("request_failed_retrying_broken_connection");
                            let _ = err;
                        }
                    }
                }
            }
            "dpend" => {
                if !pending.is_empty() {
                    let k = o.arg(0) as usize % pending.len();
                    drop(pending.remove(k));
                }
            }
            "serve" => {
                let i = o.arg(0) as usize % servers.len();
                let _ = faults::disarm();
                if let Some(s) = servers[i].as_ref() {
                    while let Ok(Some(a)) = s.receive() {
                        if *a.payload() == 0 || *a.payload() > seq {
                            e.c11.push(("corrupt".into(), format!("{what}: server {i} received request payload {} which was never sent", *a.payload())));
                        }
                        let _ = a.send_copy(*a.payload() + 1000);
                    }
                }
            }
            _ => {}
        }
        let _ = faults::disarm();
        if !e.c08.is_empty() || !e.c11.is_empty() {
            break;
        }
    }
    let _ = faults::disarm();
    // epilogue: without faults and with nothing active the client can send max_active requests again
    let mut e = errs.lock().unwrap();
    if e.c08.is_empty() && e.c11.is_empty() {
        pending.clear();
        let mut ok = Vec::new();
        for k in 0..max_active {
            match client.send_copy(9000 + k as u64) {
                Ok(p) => ok.push(p),
                Err(iceoryx2::port::client::RequestSendError::ExceedsMaxActiveRequests) => {
                    e.c08.push(("failed-request-counted-as-active".into(), format!("epilogue: with no active request only {} of {max_active} requests could be sent: ExceedsMaxActiveRequests — requests that failed earlier are still counted", ok.len())));
                    break;
                }
                Err(_) => {
                    e.probe("epilogue_request_failed_for_other_reason");
                    break;
                }
            }
        }
        e.probe("epilogue_checked");
    }
}

pub struct FaultHarness {
    pub prop: &'static str,
    pub ipc: bool,
}
impl Harness for FaultHarness {
    fn name(&self) -> &'static str {
        match (self.prop, self.ipc) {
            ("C01", true) => "c01.pubsub_syscall_faults_ipc",
            ("C01", false) => "c01.pubsub_syscall_faults_local",
            ("C08", true) => "c08.syscall_faults_ipc",
            ("C08", false) => "c08.syscall_faults_local",
            (_, true) => "c11.reqresp_syscall_faults_ipc",
            _ => "c11.reqresp_syscall_faults_local",
        }
    }
    fn property(&self) -> &'static str {
        self.prop
    }
    fn modes(&self) -> Vec<(&'static str, u32, bool)> {
        vec![("fault", 3, true), ("nofault", 1, true)]
    }
    fn quick_runs(&self) -> u64 {
        if self.ipc { 1200 } else { 800 }
    }
    fn isolate(&self) -> bool {
        true
    }
    fn components(&self) -> Value {
        json!({"real": ["iceoryx2 publish-subscribe / request-response ports with degradation handlers (Ignore / Warn / DegradeAndFail)", "connection and data segment creation through the PAL; the n-th open/shm_open/ftruncate/mmap/mkdir/fchmod of one operation fails with a seeded errno"], "stub": ["clock", "pid", "which call fails is decided by the simulator"]})
    }
    fn generate(&self, r: &mut Rng, mode: &str) -> (Plan, CfgSer) {
        let mut params = BTreeMap::new();
        params.insert("svc".into(), r.range(0, 1_000_000));
        params.insert("action".into(), r.range(0, 2));
        params.insert("max_active".into(), r.range(1, 2));
        // C08 runs both patterns, C01 publish-subscribe, C11 request-response
        let rr = match self.prop {
            "C01" => 0,
            "C11" => 1,
            _ => r.range(0, 1),
        };
        params.insert("rr".into(), rr);
        let with_faults = mode == "fault";
        let mut ops = Vec::new();
        let f = |r: &mut Rng| -> (i64, i64) { if with_faults && r.chance(0.45) { (r.range(1, 8), r.range(0, ERRNOS.len() as i64 - 1)) } else { (0, 0) } };
        if rr == 0 {
            ops.push(Op::new("sub", &[0, 0, 0]));
            ops.push(Op::new("send", &[0, 0, 0]));
            for _ in 0..r.range(8, 40) {
                let k = r.below(100);
                let (n, en) = f(r);
                ops.push(if k < 22 {
                    Op::new("sub", &[r.range(0, 3), n, en])
                } else if k < 28 {
                    Op::new("dsub", &[r.range(0, 3)])
                } else if k < 72 {
                    Op::new("send", &[0, n, en])
                } else {
                    Op::new("recv", &[r.range(0, 3)])
                });
            }
        } else {
            ops.push(Op::new("srv", &[0, 0, 0]));
            for _ in 0..r.range(8, 40) {
                let k = r.below(100);
                let (n, en) = f(r);
                ops.push(if k < 20 {
                    Op::new("srv", &[r.range(0, 2), n, en])
                } else if k < 26 {
                    Op::new("dsrv", &[r.range(0, 2)])
                } else if k < 62 {
                    Op::new("req", &[0, n, en])
                } else if k < 80 {
                    Op::new("dpend", &[r.range(0, 3)])
                } else {
                    Op::new("serve", &[r.range(0, 2)])
                });
            }
        }
        let plan = Plan { harness: self.name().into(), mode: mode.into(), params, threads: vec![ops] };
        let mut cfg = CfgSer::base();
        cfg.step_cap = 6_000_000;
        (plan, cfg)
    }
    fn execute(&self, plan: &Plan, cfg: &CfgSer, dec: Decisions) -> RunResult {
        let errs = Arc::new(Mutex::new(Errs::default()));
        let e2 = errs.clone();
        let plan2 = plan.clone();
        let ipc = self.ipc;
        let rr = plan.p("rr") != 0;
        crate::kit::crashnote::install_segv_reporter();
        let report = sim_run(cfg.to_cfg(), dec, move || match (ipc, rr) {
            (true, false) => pubsub::<ipc::Service>(&plan2, &e2),
            (false, false) => pubsub::<local::Service>(&plan2, &e2),
            (true, true) => reqresp::<ipc::Service>(&plan2, &e2),
            (false, true) => reqresp::<local::Service>(&plan2, &e2),
        });
        let _ = faults::disarm();
        let pid = unsafe { libc::getpid() };
        let _ = leftovers("ft", pid);
        remove_leftovers("ft", pid);
        #[allow(unused_mut)]
        let mut g = take_after_run(&errs);
        let mine = match self.prop {
            "C01" => &g.c01,
            "C08" => &g.c08,
            _ => &g.c11,
        };
        let mut violation = mine.first().map(|(c, m)| Violation { class: c.clone(), msg: m.clone() });
        let mut inconclusive = false;
        if violation.is_none() {
            match &report.outcome {
                Outcome::Ok => {}
                Outcome::StepCap => violation = viol("blocked", "an operation did not return within the step budget after an injected system call failure".into()),
                Outcome::Deadlock { blocked } => violation = viol("deadlock", format!("threads {blocked:?} blocked for ever")),
                Outcome::Panic { thread, msg } => violation = viol("panic", format!("thread {thread} panicked after an injected system call failure: {}", &msg[..msg.len().min(400)])),
            }
        }
        if violation.is_none() && (!g.c01.is_empty() || !g.c08.is_empty() || !g.c11.is_empty()) {
            inconclusive = true;
        }
        let mut report = report;
        report.chooses = plan.threads[0].iter().filter(|o| o.arg(1) > 0).count() as u64 + 1;
        report.sched_sig = hash_str(&serde_json::to_string(plan).unwrap());
        let probes = g.probes.iter().map(|(k, v)| (*k, *v)).collect();
        RunResult { report, violation, beyond: None, probes, inconclusive }
    }
}
