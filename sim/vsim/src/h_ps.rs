// E-api pub/sub harness (DESIGN.md §6.1, §6.2, §6.8): parties (publishers, subscribers) on one node,
// operations drawn from the run seed, reference model stepped in lock-step and compared after every
// operation. Serves C01 (delivery), C02 (sample lifetime), C08 (limits) — the same runs, three oracles.
use crate::kit::*;
use iceoryx2::port::publisher::{Publisher, PublisherCreateError};
use iceoryx2::port::subscriber::{Subscriber, SubscriberCreateError};
use iceoryx2::port::update_connections::UpdateConnections;
use iceoryx2::port::{LoanError, ReceiveError};
use iceoryx2::prelude::*;
use iceoryx2::sample::Sample;
use iceoryx2::sample_mut::SampleMut;
use iceoryx2_bb_container::semantic_string::SemanticString;
use iceoryx2_bb_system_types::file_name::FileName;
use iceoryx2_bb_system_types::path::Path;
use iceoryx2_pal_concurrency_sync::sim::{Decisions, Outcome, rng::Rng};
use serde_json::{Value, json};
use std::collections::{BTreeMap, VecDeque};
use std::sync::{Arc, Mutex};

pub type Pay = [u64; 4];
pub fn pay(stamp: u64) -> Pay {
    [stamp, !stamp, stamp.wrapping_mul(0x9E3779B97F4A7C15), stamp ^ 0x5555_5555_5555_5555]
}
pub fn pay_ok(p: &Pay) -> bool {
    *p == pay(p[0])
}

pub const ROOT: &str = "/dev/shm/vsim_root";

pub fn root_of(pid: i32) -> String {
    format!("{ROOT}/p{pid}")
}

/// A domain of its own for the calling process: own root directory and own prefix, so that concurrently
/// running simulations never see each other's files (directory scans would otherwise differ).
pub fn isolated_config(tag: &str) -> Config {
    let pid = unsafe { libc::getpid() };
    let root = root_of(pid);
    // a process with the same pid may have died here earlier without cleaning up
    remove_leftovers(tag, pid);
    let _ = std::fs::create_dir_all(&root);
    let mut config = Config::default();
    config.global.set_root_path(&Path::new(root.as_bytes()).unwrap());
    config.global.prefix = FileName::new(format!("vs{}{}_", tag, pid).as_bytes()).unwrap();
    config.global.node.cleanup_dead_nodes_on_creation = false;
    config.global.node.cleanup_dead_nodes_on_destruction = false;
    config.global.service.cleanup_dead_nodes_on_open = false;
    config
}

/// everything a process with the given (real) pid left behind under its root / in /dev/shm
pub fn leftovers(tag: &str, pid: i32) -> Vec<String> {
    let prefix = format!("vs{}{}_", tag, pid);
    let mut v = Vec::new();
    fn walk(dir: &std::path::Path, out: &mut Vec<String>, depth: usize) {
        if let Ok(rd) = std::fs::read_dir(dir) {
            for e in rd.flatten() {
                let p = e.path();
                out.push(p.to_string_lossy().to_string());
                if p.is_dir() && depth < 6 {
                    walk(&p, out, depth + 1);
                }
            }
        }
    }
    walk(std::path::Path::new(&root_of(pid)), &mut v, 0);
    if let Ok(rd) = std::fs::read_dir("/dev/shm") {
        for e in rd.flatten() {
            if e.file_name().to_string_lossy().starts_with(&prefix) {
                v.push(e.path().to_string_lossy().to_string());
            }
        }
    }
    v.sort();
    v
}
pub fn remove_leftovers(tag: &str, pid: i32) {
    for p in leftovers(tag, pid) {
        if p.starts_with("/dev/shm/") && !p.starts_with(ROOT) {
            let _ = std::fs::remove_file(&p);
        }
    }
    let _ = std::fs::remove_dir_all(root_of(pid));
}

// ---------------------------------------------------------------------------------------
// reference model

#[derive(Clone, Debug)]
pub struct MConn {
    pub q: VecDeque<u64>,
    pub cap: usize,
}
#[derive(Clone, Debug)]
pub struct MPub {
    pub id: u64,
    pub max_loaned: usize,
    pub loans: usize,
    pub history: VecDeque<u64>,
    pub conns: BTreeMap<u64, MConn>, // by subscriber instance id
    pub seq: u64,
}
#[derive(Clone, Debug)]
pub struct MSub {
    pub id: u64,
    pub buffer: usize,
    pub hist_req: usize,
    /// queues of vanished publishers that still hold data (expired connections): (publisher id, queue)
    pub expired: Vec<(u64, VecDeque<u64>)>,
    /// stamps currently held as samples, with the publisher instance they came from
    pub held: Vec<(u64, u64)>,
    /// publisher instances this subscriber has attached to (ran update_connections while they existed)
    pub attached: Vec<u64>,
}
#[derive(Clone, Debug)]
pub struct Model {
    pub overflow: bool,
    pub history_size: usize,
    pub max_borrow: usize,
    pub max_buffer: usize,
    pub max_pubs: usize,
    pub max_subs: usize,
    pub pubs: Vec<Option<MPub>>,
    pub subs: Vec<Option<MSub>>,
    pub next_id: u64,
    pub doc_loss: u64,
}

impl Model {
    pub fn alive_pubs(&self) -> usize {
        self.pubs.iter().filter(|p| p.is_some()).count()
    }
    pub fn alive_subs(&self) -> usize {
        self.subs.iter().filter(|p| p.is_some()).count()
    }
    /// publisher side update: drop connections to vanished subscribers, connect to new ones (with history)
    pub fn pub_update(&mut self, pi: usize) {
        let subs: Vec<(u64, usize, usize)> = self.subs.iter().flatten().map(|s| (s.id, s.buffer, s.hist_req)).collect();
        let p = self.pubs[pi].as_mut().unwrap();
        p.conns.retain(|sid, _| subs.iter().any(|s| s.0 == *sid));
        for (sid, buffer, hist_req) in subs {
            if !p.conns.contains_key(&sid) {
                let mut c = MConn { q: VecDeque::new(), cap: buffer };
                let n = hist_req.min(buffer);
                let start = p.history.len().saturating_sub(n);
                for x in p.history.iter().skip(start) {
                    c.q.push_back(*x);
                }
                p.conns.insert(sid, c);
            }
        }
    }
    pub fn sub_update(&mut self, si: usize) {
        let pids: Vec<u64> = self.pubs.iter().flatten().map(|p| p.id).collect();
        let s = self.subs[si].as_mut().unwrap();
        for pid in pids {
            if !s.attached.contains(&pid) {
                s.attached.push(pid);
            }
        }
    }
    /// returns the number of recipients
    pub fn send(&mut self, pi: usize, stamp: u64) -> usize {
        self.pub_update(pi);
        let (overflow, hs) = (self.overflow, self.history_size);
        let p = self.pubs[pi].as_mut().unwrap();
        if hs > 0 {
            if p.history.len() == hs {
                p.history.pop_front();
            }
            p.history.push_back(stamp);
        }
        let mut n = 0;
        for c in p.conns.values_mut() {
            if c.q.len() >= c.cap {
                if overflow {
                    c.q.pop_front();
                    c.q.push_back(stamp);
                    n += 1;
                }
            } else {
                c.q.push_back(stamp);
                n += 1;
            }
        }
        n
    }
    pub fn drop_pub(&mut self, pi: usize) {
        let p = self.pubs[pi].take().unwrap();
        for (sid, c) in p.conns {
            if c.q.is_empty() {
                continue;
            }
            if let Some(s) = self.subs.iter_mut().flatten().find(|s| s.id == sid) {
                if s.attached.contains(&p.id) {
                    s.expired.push((p.id, c.q));
                } else {
                    // documented ("Losing Data" in the FAQ): the subscriber never connected to this
                    // publisher before it vanished
                    self.doc_loss += c.q.len() as u64;
                }
            }
        }
    }
    /// heads that a receive of subscriber `si` may legitimately return: (publisher id, stamp)
    pub fn receivable(&self, si: usize) -> (Vec<(u64, u64)>, bool) {
        let s = self.subs[si].as_ref().unwrap();
        let mut heads = Vec::new();
        let mut with_data = 0;
        let borrowed = |pid: u64| s.held.iter().filter(|h| h.1 == pid).count();
        for (pid, q) in s.expired.iter() {
            if let Some(x) = q.front() {
                with_data += 1;
                if borrowed(*pid) < self.max_borrow {
                    heads.push((*pid, *x));
                }
            }
        }
        for p in self.pubs.iter().flatten() {
            if let Some(c) = p.conns.get(&s.id) {
                if let Some(x) = c.q.front() {
                    with_data += 1;
                    if borrowed(p.id) < self.max_borrow {
                        heads.push((p.id, *x));
                    }
                }
            }
        }
        (heads, with_data > 0)
    }
    pub fn take(&mut self, si: usize, pid: u64, stamp: u64) {
        let sid = self.subs[si].as_ref().unwrap().id;
        let mut done = false;
        {
            let s = self.subs[si].as_mut().unwrap();
            for (p, q) in s.expired.iter_mut() {
                if *p == pid && q.front() == Some(&stamp) {
                    q.pop_front();
                    done = true;
                    break;
                }
            }
            s.expired.retain(|e| !e.1.is_empty());
        }
        if !done {
            if let Some(p) = self.pubs.iter_mut().flatten().find(|p| p.id == pid) {
                if let Some(c) = p.conns.get_mut(&sid) {
                    c.q.pop_front();
                }
            }
        }
        self.subs[si].as_mut().unwrap().held.push((stamp, pid));
    }
}

// ---------------------------------------------------------------------------------------

#[derive(Default)]
pub struct Errs {
    pub c01: Vec<(String, String)>,
    pub c02: Vec<(String, String)>,
    pub c08: Vec<(String, String)>,
    pub probes: BTreeMap<&'static str, u64>,
}
impl Errs {
    fn probe(&mut self, k: &'static str) {
        *self.probes.entry(k).or_default() += 1;
    }
}

struct RPub<S: Service> {
    p: Publisher<S, Pay, ()>,
    loans: Vec<SampleMut<S, Pay, ()>>,
}
struct RSub<S: Service> {
    s: Subscriber<S, Pay, ()>,
    held: Vec<(u64, Sample<S, Pay, ()>)>,
}

fn check_held<S: Service>(subs: &[Option<RSub<S>>], e: &mut Errs, after: &str) {
    for s in subs.iter().flatten() {
        for (stamp, smp) in s.held.iter() {
            if *smp.payload() != pay(*stamp) {
                e.c02.push(("payload-changed".into(), format!("after {after}: a held sample with stamp {stamp:#x} now reads {:x?} — its chunk was reused while still referenced", smp.payload())));
            }
        }
    }
}

fn run_scenario<S: Service>(plan: &Plan, errs: &Arc<Mutex<Errs>>, tag: &str) {
    let config = isolated_config(tag);
    let node = match NodeBuilder::new().config(&config).create::<S>() {
        Ok(n) => n,
        Err(e) => {
            errs.lock().unwrap().c01.push(("setup".into(), format!("node creation failed: {e:?}")));
            return;
        }
    };
    let p = |k: &str| plan.p(k) as usize;
    let mut m = Model {
        overflow: plan.p("overflow") != 0,
        history_size: p("history"),
        max_borrow: p("max_borrow"),
        max_buffer: p("max_buffer"),
        max_pubs: p("max_pubs"),
        max_subs: p("max_subs"),
        pubs: vec![None, None, None],
        subs: vec![None, None, None],
        next_id: 1,
        doc_loss: 0,
    };
    let sname: ServiceName = format!("vsim/ps/{}", plan.p("svc")).as_str().try_into().unwrap();
    let service = match node
        .service_builder(&sname)
        .publish_subscribe::<Pay>()
        .enable_safe_overflow(m.overflow)
        .history_size(m.history_size)
        .subscriber_max_borrowed_samples(m.max_borrow)
        .subscriber_max_buffer_size(m.max_buffer)
        .max_publishers(m.max_pubs)
        .max_subscribers(m.max_subs)
        .create()
    {
        Ok(s) => s,
        Err(e) => {
            errs.lock().unwrap().c01.push(("setup".into(), format!("service creation failed: {e:?}")));
            return;
        }
    };
    let mut pubs: Vec<Option<RPub<S>>> = vec![None, None, None];
    let mut subs: Vec<Option<RSub<S>>> = vec![None, None, None];
    let mut pub_id_of: BTreeMap<u128, u64> = BTreeMap::new(); // real publisher id value -> model instance id

    for (opi, o) in plan.threads[0].iter().enumerate() {
        let mut e = errs.lock().unwrap();
        let what = format!("op #{opi} {}{:?}", o.c, o.a);
        let i = o.arg(0) as usize % 3;
        match o.c.as_str() {
            "cp" => {
                if pubs[i].is_some() {
                    continue;
                }
                let max_loaned = (o.arg(1) as usize).max(1);
                let r = service.publisher_builder().max_loaned_samples(max_loaned).backpressure_strategy(BackpressureStrategy::DiscardData).create();
                match r {
                    Ok(pb) => {
                        if m.alive_pubs() >= m.max_pubs {
                            e.c08.push(("limit-not-enforced".into(), format!("{what}: a publisher was created although max_publishers = {} are alive", m.max_pubs)));
                        }
                        let id = m.next_id;
                        m.next_id += 1;
                        pub_id_of.insert(pb.id().value(), id);
                        m.pubs[i] = Some(MPub { id, max_loaned, loans: 0, history: VecDeque::new(), conns: BTreeMap::new(), seq: 0 });
                        m.pub_update(i); // a new publisher connects to the existing subscribers at once
                        pubs[i] = Some(RPub { p: pb, loans: Vec::new() });
                        e.probe("publisher_created");
                    }
                    Err(PublisherCreateError::ExceedsMaxSupportedPublishers) => {
                        e.probe("publisher_refused_limit");
                        if m.alive_pubs() < m.max_pubs {
                            e.c08.push(("spurious-limit".into(), format!("{what}: ExceedsMaxSupportedPublishers although only {} of {} publishers exist", m.alive_pubs(), m.max_pubs)));
                        }
                    }
                    Err(err) => e.c08.push(("create-error".into(), format!("{what}: publisher creation failed with {err:?}"))),
                }
            }
            "dp" => {
                if let Some(rp) = pubs[i].take() {
                    drop(rp.loans);
                    drop(rp.p);
                    m.drop_pub(i);
                    e.probe("publisher_dropped");
                }
            }
            "cs" => {
                if subs[i].is_some() {
                    continue;
                }
                // a negative history request = none given: the subscriber then asks for the service's whole
                // history, clamped to its own buffer
                let default_request = o.arg(2) < 0;
                let buffer = o.arg(1) as usize;
                let hist_req = if default_request { m.history_size.min(buffer) } else { o.arg(2) as usize };
                let r = if default_request { service.subscriber_builder().buffer_size(buffer).create() } else { service.subscriber_builder().buffer_size(buffer).history_request(hist_req).create() };
                let expect_err = if buffer > m.max_buffer {
                    Some("BufferSizeExceedsMaxSupportedBufferSizeOfService")
                } else if hist_req > m.history_size {
                    Some("HistoryRequestExceedsHistorySizeOfService")
                } else if hist_req > buffer {
                    Some("HistoryRequestExceedsBufferSizeOfSubscriber")
                } else if m.alive_subs() >= m.max_subs {
                    Some("ExceedsMaxSupportedSubscribers")
                } else {
                    None
                };
                match r {
                    Ok(sb) => {
                        if let Some(x) = expect_err {
                            e.c08.push(("limit-not-enforced".into(), format!("{what}: a subscriber was created although {x} applies")));
                        }
                        let id = m.next_id;
                        m.next_id += 1;
                        m.subs[i] = Some(MSub { id, buffer, hist_req, expired: Vec::new(), held: Vec::new(), attached: Vec::new() });
                        m.sub_update(i); // a new subscriber attaches to the existing publishers at once
                        subs[i] = Some(RSub { s: sb, held: Vec::new() });
                        e.probe("subscriber_created");
                    }
                    Err(err) => {
                        e.probe("subscriber_refused");
                        let name = format!("{err:?}");
                        match expect_err {
                            None => e.c08.push(("spurious-limit".into(), format!("{what}: subscriber creation failed with {name} although all limits are respected"))),
                            Some(x) => {
                                let acceptable = [
                                    SubscriberCreateError::BufferSizeExceedsMaxSupportedBufferSizeOfService,
                                    SubscriberCreateError::HistoryRequestExceedsHistorySizeOfService,
                                    SubscriberCreateError::HistoryRequestExceedsBufferSizeOfSubscriber,
                                    SubscriberCreateError::ExceedsMaxSupportedSubscribers,
                                ];
                                if !acceptable.contains(&err) {
                                    e.c08.push(("wrong-error".into(), format!("{what}: expected {x}, got {name}")));
                                }
                            }
                        }
                    }
                }
            }
            "ds" => {
                if let Some(rs) = subs[i].take() {
                    drop(rs.held);
                    drop(rs.s);
                    m.subs[i] = None;
                    e.probe("subscriber_dropped");
                }
            }
            "loan" => {
                if let Some(rp) = pubs[i].as_mut() {
                    let mp = m.pubs[i].as_mut().unwrap();
                    match rp.p.loan() {
                        Ok(l) => {
                            if mp.loans >= mp.max_loaned {
                                e.c08.push(("limit-not-enforced".into(), format!("{what}: loan succeeded although {} of {} loans are out", mp.loans, mp.max_loaned)));
                            }
                            mp.loans += 1;
                            rp.loans.push(l);
                        }
                        Err(LoanError::ExceedsMaxLoans) => {
                            e.probe("loan_refused_max_loans");
                            if mp.loans < mp.max_loaned {
                                e.c08.push(("spurious-limit".into(), format!("{what}: ExceedsMaxLoans although only {} of {} loans are out", mp.loans, mp.max_loaned)));
                            }
                        }
                        Err(LoanError::OutOfMemory) => {
                            e.c08.push(("out-of-memory".into(), format!("{what}: loan failed with OutOfMemory although the publisher is within its limits ({} of {} loans out)", mp.loans, mp.max_loaned)));
                            e.c02.push(("leak".into(), format!("{what}: loan failed with OutOfMemory: chunks were not returned to the publisher")));
                        }
                        Err(err) => e.c08.push(("loan-error".into(), format!("{what}: loan failed with {err:?}"))),
                    }
                }
            }
            "dl" => {
                if let Some(rp) = pubs[i].as_mut() {
                    if !rp.loans.is_empty() {
                        let k = o.arg(1) as usize % rp.loans.len();
                        drop(rp.loans.remove(k));
                        m.pubs[i].as_mut().unwrap().loans -= 1;
                    }
                }
            }
            "send" => {
                // send a previously loaned sample if there is one, else send_copy
                if let Some(rp) = pubs[i].as_mut() {
                    let mp = m.pubs[i].as_mut().unwrap();
                    mp.seq += 1;
                    let stamp = (mp.id << 32) | mp.seq;
                    let r = if !rp.loans.is_empty() {
                        let k = o.arg(1) as usize % rp.loans.len();
                        let mut l = rp.loans.remove(k);
                        *l.payload_mut() = pay(stamp);
                        mp.loans -= 1;
                        l.send()
                    } else if mp.loans < mp.max_loaned {
                        rp.p.send_copy(pay(stamp))
                    } else {
                        mp.seq -= 1;
                        continue;
                    };
                    let expected = m.send(i, stamp);
                    match r {
                        Ok(n) => {
                            e.probe("sent");
                            if n != expected {
                                e.c01.push(("recipients".into(), format!("{what}: send reported {n} recipients, the model expects {expected}")));
                            }
                        }
                        Err(err) => e.c01.push(("send-error".into(), format!("{what}: send failed with {err:?}"))),
                    }
                }
            }
            "pupd" => {
                if let Some(rp) = pubs[i].as_ref() {
                    if let Err(err) = rp.p.update_connections() {
                        e.c01.push(("update-error".into(), format!("{what}: publisher update_connections failed: {err:?}")));
                    }
                    m.pub_update(i);
                }
            }
            "supd" => {
                if let Some(rs) = subs[i].as_ref() {
                    if let Err(err) = rs.s.update_connections() {
                        e.c01.push(("update-error".into(), format!("{what}: subscriber update_connections failed: {err:?}")));
                    }
                    m.sub_update(i);
                }
            }
            "has" => {
                if let Some(rs) = subs[i].as_ref() {
                    m.sub_update(i);
                    let (_, with_data) = m.receivable(i);
                    match rs.s.has_samples() {
                        Ok(b) => {
                            if b != with_data {
                                e.c01.push(("has-samples".into(), format!("{what}: has_samples() = {b}, the model says {with_data}")));
                            }
                        }
                        Err(err) => e.c01.push(("update-error".into(), format!("{what}: has_samples failed: {err:?}"))),
                    }
                }
            }
            "recv" => {
                if let Some(rs) = subs[i].as_mut() {
                    m.sub_update(i);
                    let (heads, with_data) = m.receivable(i);
                    match rs.s.receive() {
                        Ok(Some(smp)) => {
                            e.probe("received");
                            let pl = *smp.payload();
                            if !pay_ok(&pl) {
                                e.c01.push(("corrupt".into(), format!("{what}: received payload {:x?} is not one that was written", pl)));
                            } else {
                                let stamp = pl[0];
                                let origin = pub_id_of.get(&smp.origin().value()).cloned().unwrap_or(0);
                                if origin != stamp >> 32 {
                                    e.c01.push(("header".into(), format!("{what}: sample {stamp:#x} carries the publisher id of instance {origin}")));
                                }
                                if heads.contains(&(stamp >> 32, stamp)) {
                                    m.take(i, stamp >> 32, stamp);
                                    rs.held.push((stamp, smp));
                                } else {
                                    e.c01.push(("order".into(), format!("{what}: received {stamp:#x}; the model allows only the heads {:x?} (lost, duplicated, reordered or undocumented eviction)", heads)));
                                    rs.held.push((stamp, smp));
                                    m.subs[i].as_mut().unwrap().held.push((stamp, stamp >> 32));
                                }
                            }
                        }
                        Ok(None) => {
                            if !heads.is_empty() {
                                e.c01.push(("lost".into(), format!("{what}: receive returned nothing although the model has deliverable samples {:x?}", heads)));
                            } else if with_data {
                                e.c08.push(("wrong-error".into(), format!("{what}: receive returned None although every connection with data is at its borrow limit (ExceedsMaxBorrows expected)")));
                            }
                        }
                        Err(ReceiveError::ExceedsMaxBorrows) => {
                            e.probe("receive_refused_max_borrows");
                            if !heads.is_empty() || !with_data {
                                e.c08.push(("spurious-limit".into(), format!("{what}: ExceedsMaxBorrows although the model has deliverable samples {:x?} (data present: {with_data})", heads)));
                            }
                        }
                        Err(err) => e.c01.push(("receive-error".into(), format!("{what}: receive failed with {err:?}"))),
                    }
                }
            }
            "rel" => {
                if let Some(rs) = subs[i].as_mut() {
                    if !rs.held.is_empty() {
                        let k = o.arg(1) as usize % rs.held.len();
                        let (stamp, smp) = rs.held.remove(k);
                        drop(smp);
                        let ms = m.subs[i].as_mut().unwrap();
                        if let Some(pos) = ms.held.iter().position(|h| h.0 == stamp) {
                            ms.held.remove(pos);
                        }
                    }
                }
            }
            "probe" => {
                // C02 (b) / C08: with n loans out the publisher can loan exactly max_loaned - n more
                if let Some(rp) = pubs[i].as_mut() {
                    let mp = m.pubs[i].as_ref().unwrap();
                    let want = mp.max_loaned - mp.loans;
                    let mut got = Vec::new();
                    let mut failure = None;
                    for _ in 0..want {
                        match rp.p.loan() {
                            Ok(l) => got.push(l),
                            Err(err) => {
                                failure = Some(err);
                                break;
                            }
                        }
                    }
                    e.probe("loan_to_exhaustion_probe");
                    if let Some(err) = failure {
                        e.c02.push(("leak".into(), format!("{what}: only {} of {want} further loans succeeded ({err:?}): chunks whose references are all gone were not made loanable again", got.len())));
                    } else if let Ok(_) = rp.p.loan() {
                        e.c08.push(("limit-not-enforced".into(), format!("{what}: one more loan than max_loaned_samples succeeded")));
                    }
                    drop(got);
                }
            }
            _ => {}
        }
        check_held(&subs, &mut e, &what);
        if !e.c01.is_empty() || !e.c02.is_empty() || !e.c08.is_empty() {
            break;
        }
    }
    {
        let mut e = errs.lock().unwrap();
        if m.doc_loss > 0 {
            *e.probes.entry("documented_loss_publisher_vanished_before_subscriber_connected").or_default() += m.doc_loss;
        }
    }
    drop(subs);
    drop(pubs);
    drop(service);
    drop(node);
}

pub struct PubSubHarness {
    pub ipc: bool,
    pub prop: &'static str,
}

impl Harness for PubSubHarness {
    fn name(&self) -> &'static str {
        match (self.prop, self.ipc) {
            ("C01", false) => "c01.pubsub_local",
            ("C01", true) => "c01.pubsub_ipc",
            ("C02", false) => "c02.pubsub_local",
            ("C02", true) => "c02.pubsub_ipc",
            ("C08", false) => "c08.pubsub_local",
            _ => "c08.pubsub_ipc",
        }
    }
    fn property(&self) -> &'static str {
        self.prop
    }
    fn modes(&self) -> Vec<(&'static str, u32, bool)> {
        vec![("seq", 1, true)]
    }
    fn quick_runs(&self) -> u64 {
        if self.ipc { 1200 } else { 3000 }
    }
    fn isolate(&self) -> bool {
        true
    }
    fn components(&self) -> Value {
        json!({"real": ["iceoryx2 publish-subscribe service, ports, samples", if self.ipc { "ipc concepts: files, POSIX shared memory under an isolated root/prefix" } else { "local (process-local) concepts" }],
               "stub": ["clock", "pid", "choice of which party acts next"]})
    }
    fn generate(&self, r: &mut Rng, mode: &str) -> (Plan, CfgSer) {
        let max_buffer = r.range(1, 4);
        let history = r.range(0, 3.min(max_buffer));
        let mut params = BTreeMap::new();
        params.insert("overflow".into(), r.chance(0.5) as i64);
        params.insert("history".into(), history);
        params.insert("max_borrow".into(), r.range(1, 3));
        params.insert("max_buffer".into(), max_buffer);
        params.insert("max_pubs".into(), r.range(1, 3));
        params.insert("max_subs".into(), r.range(1, 3));
        params.insert("svc".into(), r.range(0, 1_000_000));
        let adversarial = self.prop == "C08" || r.chance(0.3);
        let mut ops = Vec::new();
        let n = r.range(10, 60);
        for _ in 0..n {
            let i = r.range(0, 2);
            let k = r.below(100);
            let op = if adversarial {
                // keep every subscriber at full buffer and full borrow, history full, all loans out
                if k < 3 {
                    Op::new("cp", &[i, r.range(1, 3)])
                } else if k < 4 {
                    Op::new("dp", &[i])
                } else if k < 8 {
                    let buffer = if r.chance(0.1) { max_buffer + 1 } else { r.range(1, max_buffer) };
                    let hr = if r.chance(0.1) { history + 1 } else if r.chance(0.25) { -1 } else { r.range(0, history.min(buffer)) };
                    Op::new("cs", &[i, buffer, hr])
                } else if k < 9 {
                    Op::new("ds", &[i])
                } else if k < 27 {
                    Op::new("loan", &[i])
                } else if k < 29 {
                    Op::new("dl", &[i, r.range(0, 3)])
                } else if k < 62 {
                    Op::new("send", &[i, r.range(0, 3)])
                } else if k < 64 {
                    Op::new("pupd", &[i])
                } else if k < 66 {
                    Op::new("has", &[i])
                } else if k < 88 {
                    Op::new("recv", &[i])
                } else if k < 91 {
                    Op::new("rel", &[i, r.range(0, 3)])
                } else {
                    Op::new("probe", &[i])
                }
            } else if k < 6 {
                Op::new("cp", &[i, r.range(1, 3)])
            } else if k < 9 {
                Op::new("dp", &[i])
            } else if k < 15 {
                let buffer = if r.chance(0.1) { max_buffer + 1 } else { r.range(1, max_buffer) };
                let hr = if r.chance(0.1) { history + 1 } else if r.chance(0.25) { -1 } else { r.range(0, history.min(buffer)) };
                Op::new("cs", &[i, buffer, hr])
            } else if k < 18 {
                Op::new("ds", &[i])
            } else if k < 25 {
                Op::new("loan", &[i])
            } else if k < 27 {
                Op::new("dl", &[i, r.range(0, 3)])
            } else if k < 55 {
                Op::new("send", &[i, r.range(0, 3)])
            } else if k < 58 {
                Op::new("pupd", &[i])
            } else if k < 61 {
                Op::new("supd", &[i])
            } else if k < 64 {
                Op::new("has", &[i])
            } else if k < 86 {
                Op::new("recv", &[i])
            } else if k < 96 {
                Op::new("rel", &[i, r.range(0, 3)])
            } else {
                Op::new("probe", &[i])
            };
            ops.push(op);
        }
        if adversarial && r.chance(0.7) {
            // saturation prefix: every subscriber at full buffer and full borrow, history full, all loans out,
            // then one more of each kind
            let ml = r.range(1, 3);
            let max_subs = params["max_subs"];
            let max_borrow = params["max_borrow"];
            let mut pre = vec![Op::new("cp", &[0, ml])];
            for s in 0..max_subs.min(3) {
                pre.push(Op::new("cs", &[s, max_buffer, r.range(0, history)]));
            }
            for _ in 0..(max_buffer + max_borrow + history + 1) {
                pre.push(Op::new("send", &[0, 0]));
                for s in 0..max_subs.min(3) {
                    pre.push(Op::new("recv", &[s]));
                }
            }
            for _ in 0..max_buffer {
                pre.push(Op::new("send", &[0, 0]));
            }
            for _ in 0..ml + 1 {
                pre.push(Op::new("loan", &[0]));
            }
            pre.push(Op::new("probe", &[0]));
            for s in 0..max_subs.min(3) {
                pre.push(Op::new("recv", &[s]));
            }
            pre.push(Op::new("send", &[0, 0]));
            pre.append(&mut ops);
            ops = pre;
        } else {
            // make sure something exists early
            ops.insert(0, Op::new("cp", &[0, r.range(1, 3)]));
            ops.insert(1, Op::new("cs", &[0, r.range(1, max_buffer), 0]));
        }
        let plan = Plan { harness: self.name().into(), mode: mode.into(), params, threads: vec![ops] };
        let mut cfg = CfgSer::base();
        cfg.step_cap = 3_000_000;
        (plan, cfg)
    }
    fn execute(&self, plan: &Plan, cfg: &CfgSer, dec: Decisions) -> RunResult {
        let errs = Arc::new(Mutex::new(Errs::default()));
        let e2 = errs.clone();
        let plan2 = plan.clone();
        let ipc = self.ipc;
        let t0 = std::time::Instant::now();
        if std::env::var("VSIM_NOSIM").is_ok() {
            if ipc { run_scenario::<ipc::Service>(plan, &errs, "ps"); } else { run_scenario::<local::Service>(plan, &errs, "ps"); }
            eprintln!("nosim scenario took {:?}", t0.elapsed());
        }
        let t0 = std::time::Instant::now();
        let report = sim_run(cfg.to_cfg(), dec, move || {
            if ipc {
                run_scenario::<ipc::Service>(&plan2, &e2, "ps");
            } else {
                run_scenario::<local::Service>(&plan2, &e2, "ps");
            }
        });
        if std::env::var("VSIM_NOSIM").is_ok() { eprintln!("sim scenario took {:?} steps {}", t0.elapsed(), report.steps); }
        let t0 = std::time::Instant::now();
        let pid = unsafe { libc::getpid() };
        let left = leftovers("ps", pid);
        remove_leftovers("ps", pid);
        if std::env::var("VSIM_NOSIM").is_ok() { eprintln!("leftover scan took {:?}", t0.elapsed()); }
        #[allow(unused_mut)]
        let mut g = take_after_run(&errs);
        let mine = match self.prop {
            "C01" => &g.c01,
            "C02" => &g.c02,
            _ => &g.c08,
        };
        let mut violation = mine.first().map(|(c, m)| Violation { class: c.clone(), msg: m.clone() });
        let mut inconclusive = false;
        if violation.is_none() {
            match &report.outcome {
                Outcome::Ok => {}
                Outcome::StepCap => inconclusive = true,
                Outcome::Deadlock { blocked } => violation = viol("deadlock", format!("threads {blocked:?} blocked for ever")),
                Outcome::Panic { thread, msg } => violation = viol("panic", format!("thread {thread} panicked: {msg}")),
            }
        }
        // a violation of a sibling property ends the run early; it is that property's check that reports it
        if violation.is_none() && (!g.c01.is_empty() || !g.c02.is_empty() || !g.c08.is_empty()) {
            inconclusive = true;
        }
        let _ = left;
        let mut report = report;
        // sequential engine: the schedule is the operation list; count it as one nontrivial evaluation
        report.chooses = plan.ops() as u64;
        report.sched_sig = hash_str(&serde_json::to_string(&plan.threads).unwrap());
        let probes = g.probes.iter().map(|(k, v)| (*k, *v)).collect();
        RunResult { report, violation, beyond: None, probes, inconclusive }
    }
}
