// Threaded port-level harnesses (E-thr on the full stack): publisher / subscriber threads (C01, C02) and
// client / server threads (C11) of one service run concurrently, preempted at every atomic operation of
// the real iceoryx2 code (ports, data segment, zero-copy connection, index queues). The oracle works on the
// recorded history (invoke/return stamps of the simulator's global event counter), not in lock-step.
use crate::h_ps::{Pay, isolated_config, leftovers, pay, pay_ok, remove_leftovers};
use crate::kit::*;
use iceoryx2::active_request::ActiveRequest;
use iceoryx2::pending_response::PendingResponse;
use iceoryx2::port::client::{Client, RequestSendError};
use iceoryx2::port::publisher::Publisher;
use iceoryx2::port::server::Server;
use iceoryx2::port::subscriber::Subscriber;
use iceoryx2::port::update_connections::UpdateConnections;
use iceoryx2::port::{LoanError, ReceiveError};
use iceoryx2::prelude::*;
use iceoryx2::sample::Sample;
use iceoryx2::sample_mut::SampleMut;
use iceoryx2_pal_concurrency_sync::sim::{self, Decisions, Outcome, rng::Rng};
use serde_json::{Value, json};
use std::collections::BTreeMap;
use std::sync::{Arc, Mutex};

#[derive(Default)]
struct Sh {
    c01: Vec<(String, String)>,
    c02: Vec<(String, String)>,
    probes: BTreeMap<&'static str, u64>,
    /// (publisher, n, recipients, t_inv, t_ret)
    sent: Vec<(usize, u64, usize, u64, u64)>,
    /// (subscriber, publisher, n, t_inv, t_ret)
    recv: Vec<(usize, usize, u64, u64, u64)>,
}
impl Sh {
    fn probe(&mut self, k: &'static str) {
        *self.probes.entry(k).or_default() += 1;
    }
    fn e1(&mut self, c: &str, m: String) {
        if self.c01.len() < 4 {
            self.c01.push((c.into(), m));
        }
    }
    fn e2(&mut self, c: &str, m: String) {
        if self.c02.len() < 4 {
            self.c02.push((c.into(), m));
        }
    }
}
fn lock<T>(m: &Mutex<T>) -> std::sync::MutexGuard<'_, T> {
    match m.lock() {
        Ok(g) => g,
        Err(p) => p.into_inner(),
    }
}

fn stamp_of(p: usize, n: u64) -> u64 {
    ((p as u64 + 1) << 32) | n
}

type Held<S> = Vec<(u64, Sample<S, Pay, ()>)>;

fn check_held<S: Service>(held: &Held<S>, sh: &Mutex<Sh>, when: &str) {
    for (st, s) in held.iter() {
        if *s.payload() != pay(*st) {
            lock(sh).e2("payload-changed", format!("{when}: a held sample with stamp {st:#x} now reads {:x?} — its chunk was handed out again while still referenced", s.payload()));
        }
    }
}

fn sub_receive<S: Service>(j: usize, s: &Subscriber<S, Pay, ()>, held: &mut Held<S>, borrow: usize, sh: &Mutex<Sh>) -> bool {
    let t0 = sim::stamp();
    let r = s.receive();
    let t1 = sim::stamp();
    match r {
        Ok(Some(smp)) => {
            let pl = *smp.payload();
            let mut g = lock(sh);
            g.probe("received");
            if !pay_ok(&pl) {
                g.e1("corrupt", format!("subscriber {j} received payload {:x?} which no publisher wrote", pl));
                g.e2("corrupt", format!("subscriber {j} received payload {:x?} which no publisher wrote (chunk overwritten while in flight)", pl));
            } else {
                let (p, n) = (((pl[0] >> 32) as usize).wrapping_sub(1), pl[0] & 0xffff_ffff);
                g.recv.push((j, p, n, t0, t1));
            }
            // the borrow limit holds per connection, i.e. per publisher
            let from_same = held.iter().filter(|h| h.0 >> 32 == pl[0] >> 32).count();
            if from_same >= borrow {
                g.e1("limit-not-enforced", format!("subscriber {j} received a sample of publisher {} while already holding {from_same} of {borrow} samples of it", (pl[0] >> 32) - 1));
            }
            drop(g);
            held.push((pl[0], smp));
            true
        }
        Ok(None) => false,
        Err(ReceiveError::ExceedsMaxBorrows) => {
            let mut g = lock(sh);
            g.probe("receive_refused_max_borrows");
            let mut per: BTreeMap<u64, usize> = BTreeMap::new();
            for h in held.iter() {
                *per.entry(h.0 >> 32).or_default() += 1;
            }
            if !per.values().any(|n| *n >= borrow) {
                g.e1("spurious-limit", format!("subscriber {j}: receive failed with ExceedsMaxBorrows while holding {:?} samples per publisher (limit {borrow})", per));
            }
            false
        }
        Err(e) => {
            lock(sh).e1("receive-error", format!("subscriber {j}: receive failed with {e:?}"));
            false
        }
    }
}

fn pub_send<S: Service>(p: usize, n: &mut u64, publ: &Publisher<S, Pay, ()>, loans: &mut Vec<SampleMut<S, Pay, ()>>, max_loaned: usize, copy: bool, sh: &Mutex<Sh>) {
    let next = *n + 1;
    let st = stamp_of(p, next);
    let t0 = sim::stamp();
    let r = if copy {
        publ.send_copy(pay(st)).map_err(|e| format!("{e:?}"))
    } else {
        match publ.loan_uninit() {
            Ok(s) => s.write_payload(pay(st)).send().map_err(|e| format!("{e:?}")),
            Err(LoanError::ExceedsMaxLoans) if loans.len() >= max_loaned => {
                lock(sh).probe("loan_refused_max_loans");
                return;
            }
            Err(e) => Err(format!("loan: {e:?}")),
        }
    };
    let t1 = sim::stamp();
    match r {
        Ok(k) => {
            *n = next;
            let mut g = lock(sh);
            g.sent.push((p, next, k, t0, t1));
            g.probe("sent");
        }
        Err(e) => {
            let mut g = lock(sh);
            if e.contains("ExceedsMaxLoans") && loans.len() >= max_loaned {
                g.probe("loan_refused_max_loans");
            } else if e.contains("OutOfMemory") {
                g.e2("oom-within-limits", format!("publisher {p}: sending sample {next} failed with {e} while it holds {} of {max_loaned} loans: chunks whose references are gone were not reclaimed", loans.len()));
            } else {
                g.e1("send-error", format!("publisher {p}: sending sample {next} failed with {e}"));
            }
        }
    }
}

#[allow(clippy::type_complexity)]
fn ps_scenario<S: Service>(plan: &Plan, sh: &Arc<Mutex<Sh>>, tag: &str)
where
    Publisher<S, Pay, ()>: Send + Sync + 'static,
    Subscriber<S, Pay, ()>: Send + Sync + 'static,
    Sample<S, Pay, ()>: Send + 'static,
    SampleMut<S, Pay, ()>: Send + 'static,
{
    let config = isolated_config(tag);
    let node = match NodeBuilder::new().config(&config).create::<S>() {
        Ok(n) => n,
        Err(e) => {
            lock(sh).e1("setup", format!("node creation failed: {e:?}"));
            return;
        }
    };
    let p = |k: &str| plan.p(k) as usize;
    let (npub, nsub, buffer, borrow, max_loaned) = (p("npub"), p("nsub"), p("buffer"), p("borrow"), p("max_loaned"));
    let overflow = plan.p("overflow") != 0;
    let sname: ServiceName = format!("vsim/thr/{}", plan.p("svc")).as_str().try_into().unwrap();
    let service = match node
        .service_builder(&sname)
        .publish_subscribe::<Pay>()
        .enable_safe_overflow(overflow)
        .history_size(0)
        .subscriber_max_borrowed_samples(borrow)
        .subscriber_max_buffer_size(buffer)
        .max_publishers(npub)
        .max_subscribers(nsub)
        .create()
    {
        Ok(s) => s,
        Err(e) => {
            lock(sh).e1("setup", format!("service creation failed: {e:?}"));
            return;
        }
    };
    let mut subs = Vec::new();
    for _ in 0..nsub {
        match service.subscriber_builder().buffer_size(buffer).create() {
            Ok(s) => subs.push(Arc::new(s)),
            Err(e) => {
                lock(sh).e1("setup", format!("subscriber creation failed: {e:?}"));
                return;
            }
        }
    }
    let mut pubs = Vec::new();
    for _ in 0..npub {
        match service.publisher_builder().max_loaned_samples(max_loaned).backpressure_strategy(BackpressureStrategy::DiscardData).create() {
            Ok(s) => pubs.push(Arc::new(s)),
            Err(e) => {
                lock(sh).e1("setup", format!("publisher creation failed: {e:?}"));
                return;
            }
        }
    }
    for pb in pubs.iter() {
        let _ = pb.update_connections();
    }
    // ---- concurrent phase
    let counts: Arc<Mutex<Vec<u64>>> = Arc::new(Mutex::new(vec![0; npub]));
    let helds: Arc<Mutex<Vec<Option<Held<S>>>>> = Arc::new(Mutex::new((0..nsub).map(|_| None).collect()));
    let loans_back: Arc<Mutex<Vec<Vec<SampleMut<S, Pay, ()>>>>> = Arc::new(Mutex::new((0..npub).map(|_| Vec::new()).collect()));
    let mut hs = Vec::new();
    for (k, pb) in pubs.iter().enumerate() {
        let (pb, sh, ops, counts, loans_back) = (pb.clone(), sh.clone(), plan.threads[k].clone(), counts.clone(), loans_back.clone());
        hs.push(sim::spawn(&format!("P{k}"), move || {
            let mut n = 0u64;
            let mut loans: Vec<SampleMut<S, Pay, ()>> = Vec::new();
            for o in ops.iter() {
                match o.c.as_str() {
                    "send" => pub_send(k, &mut n, &pb, &mut loans, max_loaned, false, &sh),
                    "copy" => pub_send(k, &mut n, &pb, &mut loans, max_loaned, true, &sh),
                    "loan" => match pb.loan_uninit() {
                        Ok(s) => {
                            if loans.len() >= max_loaned {
                                lock(&sh).e1("limit-not-enforced", format!("publisher {k}: a loan succeeded while {} of {max_loaned} loans are held", loans.len()));
                            }
                            // a loaned chunk must not be referenced by anybody: scribble over it
                            loans.push(s.write_payload([0xDEAD_0000_0000_0000 | k as u64; 4]));
                            lock(&sh).probe("loan_held");
                        }
                        Err(LoanError::ExceedsMaxLoans) if loans.len() >= max_loaned => lock(&sh).probe("loan_refused_max_loans"),
                        Err(LoanError::OutOfMemory) => lock(&sh).e2("oom-within-limits", format!("publisher {k}: loan failed with OutOfMemory while it holds {} of {max_loaned} loans", loans.len())),
                        Err(e) => lock(&sh).e1("loan-error", format!("publisher {k}: loan failed with {e:?}")),
                    },
                    "unloan" => {
                        if !loans.is_empty() {
                            let i = o.arg(0) as usize % loans.len();
                            drop(loans.remove(i));
                        }
                    }
                    _ => {
                        let _ = pb.update_connections();
                    }
                }
            }
            lock(&counts)[k] = n;
            lock(&loans_back)[k] = loans;
        }));
    }
    for (j, sb) in subs.iter().enumerate() {
        let (sb, sh, ops, helds) = (sb.clone(), sh.clone(), plan.threads[npub + j].clone(), helds.clone());
        hs.push(sim::spawn(&format!("S{j}"), move || {
            let mut held: Held<S> = Vec::new();
            for o in ops.iter() {
                check_held(&held, &sh, "before an operation of the subscriber");
                match o.c.as_str() {
                    "recv" => {
                        sub_receive(j, &sb, &mut held, borrow, &sh);
                    }
                    "rel" => {
                        if !held.is_empty() {
                            let i = o.arg(0) as usize % held.len();
                            drop(held.remove(i));
                        }
                    }
                    _ => {
                        let _ = sb.has_samples();
                    }
                }
                check_held(&held, &sh, "after an operation of the subscriber");
            }
            lock(&helds)[j] = Some(held);
        }));
    }
    for h in hs {
        let _ = h.join();
    }
    // ---- sequential epilogue: drain, then the history oracle
    let counts = lock(&counts).clone();
    let mut helds: Vec<Held<S>> = lock(&helds).iter_mut().map(|h| h.take().unwrap_or_default()).collect();
    let mut loans: Vec<Vec<SampleMut<S, Pay, ()>>> = std::mem::take(&mut *lock(&loans_back));
    for (j, sb) in subs.iter().enumerate() {
        check_held(&helds[j], sh, "after all threads finished");
        let mut rounds = 0;
        loop {
            helds[j].clear();
            if !sub_receive(j, sb, &mut helds[j], borrow, sh) {
                break;
            }
            rounds += 1;
            if rounds > 64 {
                lock(sh).e1("livelock", format!("subscriber {j} keeps receiving samples after the publishers stopped (more than 64 in the final drain)"));
                break;
            }
        }
        helds[j].clear();
    }
    for l in loans.iter_mut() {
        l.clear();
    }
    {
        let mut g = lock(sh);
        let sent = g.sent.clone();
        let recv = g.recv.clone();
        for j in 0..nsub {
            for k in 0..npub {
                let mine: Vec<&(usize, usize, u64, u64, u64)> = recv.iter().filter(|r| r.0 == j && r.1 == k).collect();
                let sk: Vec<&(usize, u64, usize, u64, u64)> = sent.iter().filter(|s| s.0 == k).collect();
                let mut last = 0u64;
                for r in mine.iter() {
                    if r.2 <= last {
                        let c = if r.2 == last { "duplicate" } else { "order" };
                        g.e1(c, format!("subscriber {j} received sample {} of publisher {k} after sample {last}", r.2));
                    }
                    match sk.iter().find(|s| s.1 == r.2) {
                        None => {
                            // a send whose call did not return Ok never counts as sent — unless it is the
                            // one in flight, which cannot happen after all threads were joined
                            g.e1("invented", format!("subscriber {j} received sample {} of publisher {k}, which was never sent (publisher sent {})", r.2, counts[k]));
                        }
                        Some(s) => {
                            if r.4 < s.3 {
                                g.e1("time-travel", format!("subscriber {j} received sample {} of publisher {k} before it was sent", r.2));
                            }
                        }
                    }
                    // every sample lost in front of this one must have been evicted by safe overflow
                    if r.2 > last + 1 {
                        for lost in last + 1..r.2 {
                            if !overflow {
                                continue; // judged by the recipient count below
                            }
                            g.probe("overflow_loss");
                            let evictor = lost + buffer as u64;
                            match sk.iter().find(|s| s.1 == evictor) {
                                None => g.e1("lost", format!("subscriber {j} never received sample {lost} of publisher {k} although only {} samples were sent: with a buffer of {buffer} nothing can have evicted it", counts[k])),
                                Some(s) => {
                                    if r.4 < s.3 {
                                        g.e1("lost", format!("subscriber {j} received sample {} of publisher {k}, skipping sample {lost}, before the send of sample {evictor} (the only one that can evict it from a buffer of {buffer}) had started", r.2));
                                    }
                                }
                            }
                        }
                    }
                    last = r.2;
                }
                if overflow {
                    // whatever was sent last is still in the buffer or was received
                    for lost in last + 1..=counts[k] {
                        if lost + buffer as u64 > counts[k] {
                            g.e1("lost", format!("subscriber {j} never received sample {lost} of publisher {k} (sent {} samples, buffer {buffer}, safe overflow): the newest samples must survive", counts[k]));
                        }
                    }
                }
            }
        }
        // recipient counts
        for s in sent.iter() {
            let got = recv.iter().filter(|r| r.1 == s.0 && r.2 == s.1).count();
            if s.2 > nsub {
                g.e1("recipient-count", format!("send of sample {} by publisher {} reported {} recipients with {nsub} subscribers", s.1, s.0, s.2));
            }
            if overflow {
                if s.2 != nsub {
                    g.e1("recipient-count", format!("send of sample {} by publisher {} reported {} recipients although {nsub} connected subscribers use safe overflow", s.1, s.0, s.2));
                }
            } else {
                if got != s.2 {
                    g.e1(if got < s.2 { "lost" } else { "recipient-count" }, format!("sample {} of publisher {} was reported as delivered to {} subscribers but {got} received it (no overflow, discard when full)", s.1, s.0, s.2));
                }
                if s.2 < nsub {
                    g.probe("discarded_buffer_full");
                }
            }
        }
    }
    // ---- saturation: with every reference given back, the worst case the pool is dimensioned for must fit
    if lock(sh).c01.is_empty() && lock(sh).c02.is_empty() {
        for (k, pb) in pubs.iter().enumerate() {
            let mut n = counts[k];
            let mut hold: Vec<Held<S>> = (0..nsub).map(|_| Vec::new()).collect();
            let mut my_loans = Vec::new();
            let mut ok = true;
            for _ in 0..borrow {
                pub_send(k, &mut n, pb, &mut my_loans, max_loaned, false, sh);
                for (j, sb) in subs.iter().enumerate() {
                    sub_receive(j, sb, &mut hold[j], borrow, sh);
                }
            }
            for _ in 0..buffer {
                pub_send(k, &mut n, pb, &mut my_loans, max_loaned, false, sh);
            }
            for i in 0..max_loaned {
                match pb.loan_uninit() {
                    Ok(s) => my_loans.push(s.write_payload([0xFEED; 4])),
                    Err(e) => {
                        ok = false;
                        lock(sh).e2("leak", format!("after the concurrent phase publisher {k} could loan only {i} of {max_loaned} samples ({e:?}) with {borrow} samples held and {buffer} buffered per subscriber: chunks whose references are all gone were not made loanable again"));
                        break;
                    }
                }
            }
            for h in hold.iter() {
                check_held(h, sh, "during the saturation phase");
            }
            if ok {
                lock(sh).probe("saturation_ok");
            }
            drop(my_loans);
            drop(hold);
            // empty the buffers again for the next publisher
            for (j, sb) in subs.iter().enumerate() {
                let mut h = Vec::new();
                for _ in 0..buffer + 1 {
                    h.clear();
                    if !sub_receive(j, sb, &mut h, borrow, sh) {
                        break;
                    }
                }
            }
            // the saturation sends are part of the history but not of the oracle above
        }
    }
    drop(helds);
    drop(loans);
    drop(subs);
    drop(pubs);
    drop(service);
    drop(node);
}

pub struct PubSubThreads {
    pub prop: &'static str,
    pub ipc: bool,
}

impl Harness for PubSubThreads {
    fn name(&self) -> &'static str {
        match (self.prop, self.ipc) {
            ("C01", false) => "c01.pubsub_threads",
            ("C01", true) => "c01.pubsub_threads_ipc",
            (_, false) => "c02.pubsub_threads",
            _ => "c02.pubsub_threads_ipc",
        }
    }
    fn property(&self) -> &'static str {
        self.prop
    }
    fn modes(&self) -> Vec<(&'static str, u32, bool)> {
        vec![("sc", 1, true)]
    }
    fn quick_runs(&self) -> u64 {
        if self.ipc { 1500 } else { 4000 }
    }
    fn isolate(&self) -> bool {
        true
    }
    fn components(&self) -> Value {
        json!({"real": ["iceoryx2 publish-subscribe ports (thread-safe service variants), data segment, zero-copy connection, index queues, used-chunk list — every atomic operation is a preemption point",
                        if self.ipc { "ipc concepts (files, POSIX shared memory under an isolated root/prefix)" } else { "process-local concepts" }],
               "stub": ["thread scheduler (seeded random / PCT)", "clock", "pid", "atomics are sequentially consistent in this harness"]})
    }
    fn generate(&self, r: &mut Rng, mode: &str) -> (Plan, CfgSer) {
        let (npub, nsub) = *r.pick(&[(1i64, 1i64), (1, 1), (1, 1), (2, 1), (1, 2)]);
        let buffer = r.range(1, 3);
        let borrow = r.range(1, 2);
        let max_loaned = r.range(1, 2);
        let overflow = r.chance(0.6) as i64;
        let mut threads = Vec::new();
        for _ in 0..npub {
            let mut v = Vec::new();
            let mut loans = 0;
            for _ in 0..r.range(2, 8) {
                let x = r.below(10);
                if x < 5 {
                    v.push(Op::new("send", &[]));
                } else if x < 7 {
                    v.push(Op::new("copy", &[]));
                } else if x < 8 && loans < max_loaned {
                    v.push(Op::new("loan", &[]));
                    loans += 1;
                } else if x < 9 && loans > 0 {
                    v.push(Op::new("unloan", &[r.range(0, 1)]));
                    loans -= 1;
                } else {
                    v.push(Op::new("upd", &[]));
                }
            }
            threads.push(v);
        }
        for _ in 0..nsub {
            let mut v = Vec::new();
            let mut held = 0;
            for _ in 0..r.range(2, 9) {
                if held > 0 && r.chance(0.45) {
                    v.push(Op::new("rel", &[r.range(0, 2)]));
                    held -= 1;
                } else if r.chance(0.1) {
                    v.push(Op::new("has", &[]));
                } else {
                    v.push(Op::new("recv", &[]));
                    held += 1;
                }
            }
            threads.push(v);
        }
        let mut params = BTreeMap::new();
        for (k, v) in [("npub", npub), ("nsub", nsub), ("buffer", buffer), ("borrow", borrow), ("max_loaned", max_loaned), ("overflow", overflow), ("svc", r.range(0, 99))] {
            params.insert(k.to_string(), v);
        }
        let plan = Plan { harness: self.name().into(), mode: mode.into(), params, threads };
        let mut cfg = CfgSer::base();
        cfg.step_cap = 400_000;
        cfg.spin_limit = 200;
        cfg.draw_strategy(r, 2500);
        (plan, cfg)
    }
    fn execute(&self, plan: &Plan, cfg: &CfgSer, dec: Decisions) -> RunResult {
        let sh = Arc::new(Mutex::new(Sh::default()));
        let (s2, plan2, ipc) = (sh.clone(), plan.clone(), self.ipc);
        let report = sim_run(cfg.to_cfg(), dec, move || {
            if ipc {
                ps_scenario::<ipc_threadsafe::Service>(&plan2, &s2, "pt");
            } else {
                ps_scenario::<local_threadsafe::Service>(&plan2, &s2, "pt");
            }
        });
        let pid = unsafe { libc::getpid() };
        let _ = leftovers("pt", pid);
        remove_leftovers("pt", pid);
        let g = lock(&sh);
        let mine = if self.prop == "C01" { &g.c01 } else { &g.c02 };
        let mut violation = mine.first().map(|(c, m)| Violation { class: c.clone(), msg: m.clone() });
        let mut inconclusive = false;
        if violation.is_none() {
            match &report.outcome {
                Outcome::Ok => {}
                Outcome::StepCap => violation = viol("call-does-not-terminate", "the scenario did not finish within the step budget: some call of a port spins for ever".into()),
                Outcome::Deadlock { blocked } => violation = viol("deadlock", format!("threads {blocked:?} blocked for ever")),
                Outcome::Panic { thread, msg } => violation = viol("panic", format!("thread {thread} panicked: {}", &msg[..msg.len().min(300)])),
            }
        }
        if violation.is_none() && (!g.c01.is_empty() || !g.c02.is_empty()) {
            inconclusive = true;
        }
        let probes = g.probes.iter().map(|(k, v)| (*k, *v)).collect();
        RunResult { report, violation, beyond: None, probes, inconclusive }
    }
}

// =======================================================================================
// request-response: client and server threads (C11)

type Req = [u64; 2];
type Resp = [u64; 4];
fn req(stamp: u64) -> Req {
    [stamp, !stamp]
}
fn mk_resp(req_stamp: u64, server: u64, seq: u64) -> Resp {
    [req_stamp, server, seq, req_stamp ^ server.rotate_left(17) ^ seq.rotate_left(33) ^ 0xA5A5]
}
fn resp_ok(r: &Resp) -> bool {
    r[3] == r[0] ^ r[1].rotate_left(17) ^ r[2].rotate_left(33) ^ 0xA5A5
}

#[derive(Default)]
struct RSh {
    errs: Vec<(String, String)>,
    probes: BTreeMap<&'static str, u64>,
    /// request stamp -> (t_inv, t_ret) of the successful send
    sent: BTreeMap<u64, (u64, u64)>,
    /// request stamp -> time at which its pending response was dropped
    dropped: BTreeMap<u64, u64>,
    /// (server, request stamp, t_inv, t_ret, is_connected right after the receive)
    srecv: Vec<(usize, u64, u64, u64, bool)>,
    /// (server, request stamp) -> number of responses whose send returned Ok / was attempted
    resp_sent: BTreeMap<(usize, u64), (u64, u64)>,
}
impl RSh {
    fn err(&mut self, c: &str, m: String) {
        if self.errs.len() < 4 {
            self.errs.push((c.into(), m));
        }
    }
    fn probe(&mut self, k: &'static str) {
        *self.probes.entry(k).or_default() += 1;
    }
}

struct Pend<S: Service> {
    stamp: u64,
    p: PendingResponse<S, Req, (), Resp, ()>,
    last_seq: BTreeMap<u64, u64>,
    answered: bool,
}
struct Act<S: Service> {
    stamp: u64,
    a: ActiveRequest<S, Req, (), Resp, ()>,
}

fn client_receive<S: Service>(c: usize, p: &mut Pend<S>, sh: &Mutex<RSh>) -> bool {
    match p.p.receive() {
        Ok(Some(r)) => {
            let pl = *r.payload();
            let mut g = lock(sh);
            g.probe("response_received");
            if !resp_ok(&pl) {
                g.err("corrupt", format!("client {c}: received response payload {:x?} was never written", pl));
            } else if pl[0] != p.stamp {
                g.err("misrouted", format!("client {c}: the pending response of request {:#x} received a response that was sent for request {:#x} (server {}, seq {})", p.stamp, pl[0], pl[1], pl[2]));
            } else {
                let last = p.last_seq.get(&pl[1]).cloned().unwrap_or(0);
                if pl[2] <= last {
                    g.err("order", format!("client {c}: request {:#x} got response seq {} from server {} after seq {last} (duplicate or reordered)", p.stamp, pl[2], pl[1]));
                }
                let attempted = g.resp_sent.get(&(pl[1] as usize, pl[0])).map(|x| x.1).unwrap_or(0);
                if pl[2] > attempted {
                    g.err("invented", format!("client {c}: request {:#x} got response seq {} from server {} which has only sent {attempted}", p.stamp, pl[2], pl[1]));
                }
                p.last_seq.insert(pl[1], pl[2]);
                p.answered = true;
            }
            true
        }
        Ok(None) => false,
        Err(_) => {
            lock(sh).probe("response_receive_refused");
            false
        }
    }
}

fn server_receive<S: Service>(s: usize, srv: &Server<S, Req, (), Resp, ()>, act: &mut Vec<Act<S>>, sh: &Mutex<RSh>) -> bool {
    let t0 = sim::stamp();
    let r = srv.receive();
    let t1 = sim::stamp();
    match r {
        Ok(Some(a)) => {
            let pl = *a.payload();
            let conn = a.is_connected();
            let mut g = lock(sh);
            g.probe("request_received");
            if pl != req(pl[0]) {
                g.err("corrupt", format!("server {s}: received request payload {:x?} was never written", pl));
            } else {
                let st = pl[0];
                if g.srecv.iter().any(|x| x.0 == s && x.1 == st) {
                    g.err("duplicate", format!("server {s} received request {st:#x} twice"));
                }
                if let Some(l) = g.srecv.iter().filter(|x| x.0 == s && x.1 >> 32 == st >> 32).map(|x| x.1).max() {
                    if l >= st {
                        g.err("order", format!("server {s} received request {st:#x} after {l:#x} of the same client"));
                    }
                }
                g.srecv.push((s, st, t0, t1, conn));
                drop(g);
                act.push(Act { stamp: st, a });
            }
            true
        }
        Ok(None) => false,
        Err(ReceiveError::ExceedsMaxBorrows) => {
            lock(sh).probe("server_receive_refused_max_borrows");
            false
        }
        Err(e) => {
            lock(sh).err("receive-error", format!("server {s}: receive failed with {e:?}"));
            false
        }
    }
}

#[allow(clippy::type_complexity)]
fn rr_scenario<S: Service>(plan: &Plan, sh: &Arc<Mutex<RSh>>)
where
    Client<S, Req, (), Resp, ()>: Send + Sync + 'static,
    Server<S, Req, (), Resp, ()>: Send + Sync + 'static,
    PendingResponse<S, Req, (), Resp, ()>: Send + 'static,
    ActiveRequest<S, Req, (), Resp, ()>: Send + 'static,
{
    let config = isolated_config("rt");
    let node = match NodeBuilder::new().config(&config).create::<S>() {
        Ok(n) => n,
        Err(e) => {
            lock(sh).err("setup", format!("node creation failed: {e:?}"));
            return;
        }
    };
    let p = |k: &str| plan.p(k) as usize;
    let (ncl, nsrv, max_active) = (p("nclients"), p("nservers"), p("max_active"));
    let faf = plan.p("fire_and_forget") != 0;
    let sname: ServiceName = format!("vsim/thrr/{}", plan.p("svc")).as_str().try_into().unwrap();
    let service = match node
        .service_builder(&sname)
        .request_response::<Req, Resp>()
        .max_clients(ncl)
        .max_servers(nsrv)
        .max_active_requests_per_client(max_active)
        .max_response_buffer_size(p("resp_buffer"))
        .max_borrowed_responses_per_pending_response(p("max_borrow"))
        .enable_safe_overflow_for_requests(false)
        .enable_safe_overflow_for_responses(plan.p("resp_overflow") != 0)
        .enable_fire_and_forget_requests(faf)
        .create()
    {
        Ok(s) => s,
        Err(e) => {
            lock(sh).err("setup", format!("service creation failed: {e:?}"));
            return;
        }
    };
    let mut servers = Vec::new();
    for _ in 0..nsrv {
        match service.server_builder().backpressure_strategy(BackpressureStrategy::DiscardData).create() {
            Ok(s) => servers.push(Arc::new(s)),
            Err(e) => {
                lock(sh).err("setup", format!("server creation failed: {e:?}"));
                return;
            }
        }
    }
    let mut clients = Vec::new();
    for _ in 0..ncl {
        match service.client_builder().backpressure_strategy(BackpressureStrategy::DiscardData).create() {
            Ok(s) => clients.push(Arc::new(s)),
            Err(e) => {
                lock(sh).err("setup", format!("client creation failed: {e:?}"));
                return;
            }
        }
    }
    for s in servers.iter() {
        let _ = s.update_connections();
    }
    for c in clients.iter() {
        let _ = c.update_connections();
    }
    let pends: Arc<Mutex<Vec<Vec<Pend<S>>>>> = Arc::new(Mutex::new((0..ncl).map(|_| Vec::new()).collect()));
    let acts: Arc<Mutex<Vec<Vec<Act<S>>>>> = Arc::new(Mutex::new((0..nsrv).map(|_| Vec::new()).collect()));
    let mut hs = Vec::new();
    for (c, cl) in clients.iter().enumerate() {
        let (cl, sh, ops, pends) = (cl.clone(), sh.clone(), plan.threads[c].clone(), pends.clone());
        hs.push(sim::spawn(&format!("C{c}"), move || {
            let mut pend: Vec<Pend<S>> = Vec::new();
            let mut seq = 0u64;
            for o in ops.iter() {
                let k = o.arg(0) as usize;
                match o.c.as_str() {
                    "req" => {
                        seq += 1;
                        let stamp = ((c as u64 + 1) << 32) | seq;
                        let t0 = sim::stamp();
                        let r = cl.send_copy(req(stamp));
                        let t1 = sim::stamp();
                        match r {
                            Ok(pr) => {
                                let mut g = lock(&sh);
                                if pend.len() >= max_active {
                                    g.err("limit-not-enforced", format!("client {c}: request sent although {} of {max_active} requests are active", pend.len()));
                                }
                                g.sent.insert(stamp, (t0, t1));
                                g.probe("request_sent");
                                drop(g);
                                pend.push(Pend { stamp, p: pr, last_seq: BTreeMap::new(), answered: false });
                            }
                            Err(RequestSendError::ExceedsMaxActiveRequests) => {
                                let mut g = lock(&sh);
                                g.probe("request_refused_max_active");
                                if pend.len() < max_active {
                                    g.err("spurious-limit", format!("client {c}: ExceedsMaxActiveRequests although only {} of {max_active} requests are active", pend.len()));
                                }
                            }
                            Err(RequestSendError::SendError(iceoryx2::port::SendError::LoanError(LoanError::OutOfMemory))) => {
                                // the under-dimensioned request segment is C08's known finding, not C11's business
                                lock(&sh).probe("request_refused_out_of_memory");
                            }
                            Err(e) => lock(&sh).err("send-error", format!("client {c}: request failed with {e:?}")),
                        }
                    }
                    "crecv" => {
                        if !pend.is_empty() {
                            let n = pend.len();
                            client_receive(c, &mut pend[k % n], &sh);
                        }
                    }
                    _ => {
                        // drop a pending response, but only one that has been answered: the server then has
                        // taken its request out of the buffer, so the buffer (sized for max_active requests)
                        // can never be full of stale requests and every request sent must arrive
                        if let Some(i) = (0..pend.len()).map(|i| (i + k) % pend.len()).find(|i| pend[*i].answered) {
                            let pr = pend.remove(i);
                            let t = sim::stamp();
                            lock(&sh).dropped.insert(pr.stamp, t);
                            lock(&sh).probe("pending_response_dropped");
                            drop(pr);
                        }
                    }
                }
            }
            lock(&pends)[c] = pend;
        }));
    }
    for (s, srv) in servers.iter().enumerate() {
        let (srv, sh, ops, acts) = (srv.clone(), sh.clone(), plan.threads[ncl + s].clone(), acts.clone());
        hs.push(sim::spawn(&format!("V{s}"), move || {
            let mut act: Vec<Act<S>> = Vec::new();
            for o in ops.iter() {
                let k = o.arg(0) as usize;
                match o.c.as_str() {
                    "srecv" => {
                        server_receive(s, &srv, &mut act, &sh);
                    }
                    "resp" => {
                        if !act.is_empty() {
                            let n = act.len();
                            let a = &mut act[k % n];
                            let seq = {
                                let mut g = lock(&sh);
                                let e = g.resp_sent.entry((s, a.stamp)).or_default();
                                e.1 += 1;
                                e.1
                            };
                            match a.a.send_copy(mk_resp(a.stamp, s as u64, seq)) {
                                Ok(()) => {
                                    let mut g = lock(&sh);
                                    g.resp_sent.entry((s, a.stamp)).or_default().0 += 1;
                                    g.probe("response_sent");
                                }
                                Err(_) => lock(&sh).probe("response_send_failed"),
                            }
                        }
                    }
                    _ => {
                        if !act.is_empty() {
                            let n = act.len();
                            drop(act.remove(k % n));
                        }
                    }
                }
            }
            lock(&acts)[s] = act;
        }));
    }
    for h in hs {
        let _ = h.join();
    }
    // ---- epilogue: the servers drain their request buffers while every unanswered pending response is alive
    let mut pends: Vec<Vec<Pend<S>>> = std::mem::take(&mut *lock(&pends));
    let mut acts: Vec<Vec<Act<S>>> = std::mem::take(&mut *lock(&acts));
    let t_drain = sim::stamp();
    for (s, srv) in servers.iter().enumerate() {
        let mut rounds = 0;
        loop {
            acts[s].clear();
            if !server_receive(s, srv, &mut acts[s], sh) {
                break;
            }
            // answer once so that the client side can be checked too
            if let Some(a) = acts[s].last() {
                let seq = {
                    let mut g = lock(sh);
                    let e = g.resp_sent.entry((s, a.stamp)).or_default();
                    e.1 += 1;
                    e.1
                };
                if a.a.send_copy(mk_resp(a.stamp, s as u64, seq)).is_ok() {
                    lock(sh).resp_sent.entry((s, a.stamp)).or_default().0 += 1;
                }
            }
            rounds += 1;
            if rounds > 64 {
                lock(sh).err("livelock", format!("server {s} keeps receiving requests after the clients stopped"));
                break;
            }
        }
        acts[s].clear();
    }
    for (c, ps) in pends.iter_mut().enumerate() {
        for p in ps.iter_mut() {
            for _ in 0..16 {
                if !client_receive(c, p, sh) {
                    break;
                }
            }
        }
    }
    {
        let mut g = lock(sh);
        let sent = g.sent.clone();
        let srecv = g.srecv.clone();
        let dropped = g.dropped.clone();
        for r in srecv.iter() {
            match sent.get(&r.1) {
                None => g.err("invented", format!("server {} received request {:#x} which no client sent successfully", r.0, r.1)),
                Some(s) => {
                    if r.3 < s.0 {
                        g.err("time-travel", format!("server {} received request {:#x} before it was sent", r.0, r.1));
                    }
                }
            }
            // the response stream of a request whose pending response is alive is connected
            let alive_at_receive = dropped.get(&r.1).map(|t| *t > r.3).unwrap_or(true);
            if !r.4 && alive_at_receive {
                g.err("not-connected", format!("server {}: the active request for {:#x} reported is_connected() == false right after it was received although its pending response is alive", r.0, r.1));
            }
        }
        for (st, _) in sent.iter() {
            for s in 0..nsrv {
                let got = srecv.iter().any(|r| r.0 == s && r.1 == *st);
                let alive = dropped.get(st).map(|t| *t > t_drain).unwrap_or(true);
                let answered_somewhere = dropped.contains_key(st);
                // Documented discard, not a loss: with several servers a pending response may be dropped after ONE
                // server answered while a slower server still has that request in its buffer (one buffer of
                // max_active requests per client and server, no overflow); a request sent while that buffer
                // could hold max_active earlier requests of the same client is discarded for that server.
                let (st0, st1) = sent[st];
                let in_buffer = sent
                    .iter()
                    .filter(|(o, (_, o1))| **o != *st && **o >> 32 == *st >> 32 && *o1 < st1)
                    .filter(|(o, _)| !srecv.iter().any(|r| r.0 == s && r.1 == **o && r.3 < st0))
                    .count();
                if !got && in_buffer >= max_active {
                    g.probe("documented_discard_request_buffer_of_slow_server_full");
                    continue;
                }
                if !got && (faf || alive) {
                    g.err("request-lost", format!("request {st:#x} was sent successfully and its pending response {} but server {s} never received it (fire-and-forget {faf}, at most {max_active} active requests per client, no request overflow)", if alive { "is still alive" } else { "was dropped after an answer" }));
                }
                let _ = answered_somewhere;
            }
        }
    }
    drop(pends);
    drop(acts);
    drop(clients);
    drop(servers);
    drop(service);
    drop(node);
}

pub struct ReqRespThreads {
    pub ipc: bool,
}

impl Harness for ReqRespThreads {
    fn name(&self) -> &'static str {
        if self.ipc { "c11.reqresp_threads_ipc" } else { "c11.reqresp_threads" }
    }
    fn property(&self) -> &'static str {
        "C11"
    }
    fn modes(&self) -> Vec<(&'static str, u32, bool)> {
        vec![("sc", 1, true)]
    }
    fn quick_runs(&self) -> u64 {
        if self.ipc { 1200 } else { 3000 }
    }
    fn isolate(&self) -> bool {
        true
    }
    fn components(&self) -> Value {
        json!({"real": ["iceoryx2 request-response ports (thread-safe service variants), request/response data segments, zero-copy connections with one channel per active request — every atomic operation is a preemption point",
                        if self.ipc { "ipc concepts" } else { "process-local concepts" }],
               "stub": ["thread scheduler (seeded random / PCT)", "clock", "pid", "atomics are sequentially consistent in this harness"]})
    }
    fn generate(&self, r: &mut Rng, mode: &str) -> (Plan, CfgSer) {
        let (ncl, nsrv) = *r.pick(&[(1i64, 1i64), (1, 1), (2, 1), (1, 2)]);
        let max_active = r.range(1, 2);
        let mut threads = Vec::new();
        for _ in 0..ncl {
            let mut v = Vec::new();
            for _ in 0..r.range(2, 8) {
                let x = r.below(10);
                v.push(if x < 5 { Op::new("req", &[]) } else if x < 8 { Op::new("crecv", &[r.range(0, 2)]) } else { Op::new("dpr", &[r.range(0, 2)]) });
            }
            threads.push(v);
        }
        for _ in 0..nsrv {
            let mut v = Vec::new();
            for _ in 0..r.range(2, 9) {
                let x = r.below(10);
                v.push(if x < 5 { Op::new("srecv", &[]) } else if x < 8 { Op::new("resp", &[r.range(0, 2)]) } else { Op::new("dar", &[r.range(0, 2)]) });
            }
            threads.push(v);
        }
        let mut params = BTreeMap::new();
        for (k, v) in [("nclients", ncl), ("nservers", nsrv), ("max_active", max_active), ("resp_buffer", r.range(1, 3)), ("max_borrow", r.range(1, 2)), ("resp_overflow", r.chance(0.5) as i64), ("fire_and_forget", r.chance(0.4) as i64), ("svc", r.range(0, 99))] {
            params.insert(k.to_string(), v);
        }
        let plan = Plan { harness: self.name().into(), mode: mode.into(), params, threads };
        let mut cfg = CfgSer::base();
        cfg.step_cap = 500_000;
        cfg.spin_limit = 200;
        cfg.draw_strategy(r, 3000);
        (plan, cfg)
    }
    fn execute(&self, plan: &Plan, cfg: &CfgSer, dec: Decisions) -> RunResult {
        let sh = Arc::new(Mutex::new(RSh::default()));
        let (s2, plan2, ipc) = (sh.clone(), plan.clone(), self.ipc);
        let report = sim_run(cfg.to_cfg(), dec, move || {
            if ipc {
                rr_scenario::<ipc_threadsafe::Service>(&plan2, &s2);
            } else {
                rr_scenario::<local_threadsafe::Service>(&plan2, &s2);
            }
        });
        let pid = unsafe { libc::getpid() };
        remove_leftovers("rt", pid);
        let g = lock(&sh);
        let mut violation = g.errs.first().map(|(c, m)| Violation { class: c.clone(), msg: m.clone() });
        if violation.is_none() {
            match &report.outcome {
                Outcome::Ok => {}
                Outcome::StepCap => violation = viol("call-does-not-terminate", "the scenario did not finish within the step budget: some call of a port spins for ever".into()),
                Outcome::Deadlock { blocked } => violation = viol("deadlock", format!("threads {blocked:?} blocked for ever")),
                Outcome::Panic { thread, msg } => violation = viol("panic", format!("thread {thread} panicked: {}", &msg[..msg.len().min(300)])),
            }
        }
        let probes = g.probes.iter().map(|(k, v)| (*k, *v)).collect();
        RunResult { report, violation, beyond: None, probes, inconclusive: false }
    }
}
