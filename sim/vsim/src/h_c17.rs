// C17 — orderly shutdown in any order leaves nothing behind (DESIGN.md §6.17). E-api: an object graph
// (nodes, service handles, ports, loaned/received samples, pending responses/active requests, wait-set
// guard) per messaging pattern; the scheduler interleaves "drop object X" with uses of what is still alive.
use crate::h_ps::{Pay, isolated_config, leftovers, pay, remove_leftovers, root_of};
use crate::kit::*;
use iceoryx2::prelude::*;
use iceoryx2_pal_concurrency_sync::sim::{Decisions, Outcome, rng::Rng};
use serde_json::{Value, json};
use std::any::Any;
use std::collections::BTreeMap;
use std::sync::{Arc, Mutex};

#[derive(Default)]
struct Errs {
    errs: Vec<(String, String)>,
    probes: BTreeMap<&'static str, u64>,
    drop_order: Vec<String>,
}
impl Errs {
    fn err(&mut self, c: &str, m: String) {
        if self.errs.len() < 4 {
            self.errs.push((c.into(), m));
        }
    }
    fn probe(&mut self, k: &'static str) {
        *self.probes.entry(k).or_default() += 1;
    }
}

/// slots of the object graph; dropping is `slot.take()`
struct Graph {
    names: Vec<&'static str>,
    objs: Vec<Option<Box<dyn Any>>>,
}
impl Graph {
    fn new() -> Self {
        Graph { names: Vec::new(), objs: Vec::new() }
    }
    fn add<T: 'static>(&mut self, name: &'static str, v: T) {
        self.names.push(name);
        self.objs.push(Some(Box::new(v)));
    }
    fn get<T: 'static>(&self, name: &str) -> Option<&T> {
        self.names.iter().position(|n| *n == name).and_then(|i| self.objs[i].as_ref()).and_then(|b| b.downcast_ref::<T>())
    }
    fn alive(&self, name: &str) -> bool {
        self.names.iter().position(|n| *n == name).map(|i| self.objs[i].is_some()).unwrap_or(false)
    }
}

fn scenario<S: Service + 'static>(plan: &Plan, errs: &Arc<Mutex<Errs>>) -> Config
where
    iceoryx2::port::listener::Listener<S>: iceoryx2_bb_posix::file_descriptor_set::SynchronousMultiplexing,
{
    use iceoryx2::active_request::ActiveRequest;
    use iceoryx2::pending_response::PendingResponse;
    use iceoryx2::port::client::Client;
    use iceoryx2::port::listener::Listener;
    use iceoryx2::port::notifier::Notifier;
    use iceoryx2::port::publisher::Publisher;
    use iceoryx2::port::server::Server;
    use iceoryx2::port::subscriber::Subscriber;
    use iceoryx2::sample::Sample;
    use iceoryx2::sample_mut::SampleMut;
    use iceoryx2::service::port_factory::{event, publish_subscribe, request_response};

    let config = isolated_config("sd");
    let pattern = plan.p("pattern");
    let two_nodes = plan.p("two_nodes") != 0;
    let sname: ServiceName = format!("vsim/sd/{}", plan.p("svc")).as_str().try_into().unwrap();
    let mut g = Graph::new();
    macro_rules! setup_fail {
        ($e:expr, $what:expr) => {
            match $e {
                Ok(v) => v,
                Err(err) => {
                    errs.lock().unwrap().err("setup", format!("{} failed: {err:?}", $what));
                    return config;
                }
            }
        };
    }
    let node_a = setup_fail!(NodeBuilder::new().config(&config).create::<S>(), "node A");
    let node_b = if two_nodes { Some(setup_fail!(NodeBuilder::new().config(&config).create::<S>(), "node B")) } else { None };
    match pattern {
        0 => {
            let sa = setup_fail!(node_a.service_builder(&sname).publish_subscribe::<Pay>().history_size(1).subscriber_max_buffer_size(2).open_or_create(), "service (A)");
            let sb = match &node_b {
                Some(n) => setup_fail!(n.service_builder(&sname).publish_subscribe::<Pay>().history_size(1).subscriber_max_buffer_size(2).open_or_create(), "service (B)"),
                None => setup_fail!(node_a.service_builder(&sname).publish_subscribe::<Pay>().history_size(1).subscriber_max_buffer_size(2).open_or_create(), "service (A2)"),
            };
            let p = setup_fail!(sa.publisher_builder().create(), "publisher");
            let s = setup_fail!(sb.subscriber_builder().create(), "subscriber");
            let _ = p.send_copy(pay(1));
            let _ = p.send_copy(pay(2));
            let loan: SampleMut<S, Pay, ()> = setup_fail!(p.loan(), "loan");
            let smp: Sample<S, Pay, ()> = match s.receive() {
                Ok(Some(x)) => x,
                other => {
                    errs.lock().unwrap().err("setup", format!("initial receive gave {:?}", other.map(|o| o.is_some())));
                    return config;
                }
            };
            g.add("port1", p);
            g.add("port2", s);
            g.add("loan", loan);
            g.add("sample", smp);
            g.add("service_a", sa);
            g.add("service_b", sb);
        }
        1 => {
            let sa = setup_fail!(node_a.service_builder(&sname).request_response::<u64, u64>().max_active_requests_per_client(2).max_response_buffer_size(4).open_or_create(), "service (A)");
            let sb = match &node_b {
                Some(n) => setup_fail!(n.service_builder(&sname).request_response::<u64, u64>().max_active_requests_per_client(2).max_response_buffer_size(4).open_or_create(), "service (B)"),
                None => setup_fail!(node_a.service_builder(&sname).request_response::<u64, u64>().max_active_requests_per_client(2).max_response_buffer_size(4).open_or_create(), "service (A2)"),
            };
            let c: Client<S, u64, (), u64, ()> = setup_fail!(sa.client_builder().create(), "client");
            let s: Server<S, u64, (), u64, ()> = setup_fail!(sb.server_builder().create(), "server");
            let pend: PendingResponse<S, u64, (), u64, ()> = setup_fail!(c.send_copy(7), "request");
            let act: ActiveRequest<S, u64, (), u64, ()> = match s.receive() {
                Ok(Some(a)) => a,
                other => {
                    errs.lock().unwrap().err("setup", format!("initial server receive gave {:?}", other.map(|o| o.is_some())));
                    return config;
                }
            };
            let _ = act.send_copy(70);
            let resp = match pend.receive() {
                Ok(Some(r)) => r,
                other => {
                    errs.lock().unwrap().err("setup", format!("initial response receive gave {:?}", other.map(|o| o.is_some())));
                    return config;
                }
            };
            // a second request on another channel of the same connection: its pending response is polled while the
            // response of the first is still held (a connection has one channel per active request)
            if let Ok(pend2) = c.send_copy(9) {
                if let Ok(Some(act2)) = s.receive() {
                    // the higher channel gets a held response as well, the lower one a buffered, unreceived one
                    let _ = act2.send_copy(72);
                    if let Ok(Some(r2)) = pend2.receive() {
                        g.add("response2", r2);
                    }
                    g.add("active2", act2);
                }
                g.add("pending2", pend2);
            }
            let _ = act.send_copy(71);
            g.add("port1", c);
            g.add("port2", s);
            g.add("pending", pend);
            g.add("active", act);
            g.add("response", resp);
            g.add("service_a", sa);
            g.add("service_b", sb);
        }
        _ => {
            let sa = setup_fail!(node_a.service_builder(&sname).event().open_or_create(), "service (A)");
            let sb = match &node_b {
                Some(n) => setup_fail!(n.service_builder(&sname).event().open_or_create(), "service (B)"),
                None => setup_fail!(node_a.service_builder(&sname).event().open_or_create(), "service (A2)"),
            };
            let n: Notifier<S> = setup_fail!(sa.notifier_builder().create(), "notifier");
            let l: Listener<S> = setup_fail!(sb.listener_builder().create(), "listener");
            let _ = n.notify();
            g.add("port1", n);
            g.add("port2", l);
            g.add("service_a", sa);
            g.add("service_b", sb);
        }
    }
    if let Some(n) = node_b {
        g.add("node_b", n);
    }
    g.add("node_a", node_a);

    // the plan's operations: drop slot k (mod number of slots still alive) or use what is alive
    for (opi, o) in plan.threads[0].iter().enumerate() {
        let what = format!("op #{opi} {}{:?}", o.c, o.a);
        crate::kit::crashnote::set(&format!("{what} (pattern {pattern}, objects dropped so far {:?})", errs.lock().map(|e| e.drop_order.clone()).unwrap_or_default()));
        match o.c.as_str() {
            "drop" => {
                let alive: Vec<usize> = (0..g.objs.len()).filter(|i| g.objs[*i].is_some()).collect();
                if alive.is_empty() {
                    continue;
                }
                let i = alive[o.arg(0) as usize % alive.len()];
                errs.lock().unwrap().drop_order.push(g.names[i].to_string());
                let obj = g.objs[i].take();
                drop(obj);
            }
            "use" => {
                let mut e = errs.lock().unwrap();
                match pattern {
                    0 => {
                        if let Some(p) = g.get::<Publisher<S, Pay, ()>>("port1") {
                            match p.send_copy(pay(100 + opi as u64)) {
                                Ok(n) => {
                                    e.probe("survivor_publisher_sent");
                                    if g.alive("port2") && n != 1 {
                                        e.err("survivor", format!("{what}: the publisher delivered to {n} subscribers although one subscriber is alive"));
                                    }
                                }
                                Err(iceoryx2::port::SendError::LoanError(iceoryx2::port::LoanError::ExceedsMaxLoans)) => {}
                                Err(err) => e.err("survivor", format!("{what}: send on the surviving publisher failed with {err:?}")),
                            }
                        }
                        if let Some(s) = g.get::<Subscriber<S, Pay, ()>>("port2") {
                            match s.receive() {
                                Ok(Some(x)) => {
                                    e.probe("survivor_subscriber_received");
                                    if !crate::h_ps::pay_ok(x.payload()) {
                                        e.err("survivor", format!("{what}: received a corrupted payload {:x?}", x.payload()));
                                    }
                                }
                                Ok(None) => {}
                                Err(iceoryx2::port::ReceiveError::ExceedsMaxBorrows) => {}
                                Err(err) => e.err("survivor", format!("{what}: receive on the surviving subscriber failed with {err:?}")),
                            }
                        }
                        if let Some(x) = g.get::<Sample<S, Pay, ()>>("sample") {
                            if *x.payload() != pay(1) {
                                e.err("survivor", format!("{what}: the held sample changed to {:x?}", x.payload()));
                            }
                        }
                    }
                    1 => {
                        if let Some(a) = g.get::<ActiveRequest<S, u64, (), u64, ()>>("active") {
                            if **a != 7 {
                                e.err("survivor", format!("{what}: the held request payload changed to {}", **a));
                            }
                            match a.send_copy(71) {
                                Ok(()) => e.probe("survivor_active_request_responded"),
                                Err(_) => e.probe("survivor_response_refused"),
                            }
                        }
                        if let Some(p) = g.get::<PendingResponse<S, u64, (), u64, ()>>("pending") {
                            match p.receive() {
                                Ok(Some(r)) => {
                                    e.probe("survivor_pending_received");
                                    if *r.payload() != 71 && *r.payload() != 70 {
                                        e.err("survivor", format!("{what}: pending response received {}", *r.payload()));
                                    }
                                }
                                Ok(None) => {}
                                Err(_) => {}
                            }
                        }
                        if let Some(p) = g.get::<PendingResponse<S, u64, (), u64, ()>>("pending2") {
                            match p.receive() {
                                Ok(Some(r)) => {
                                    e.probe("survivor_pending2_received");
                                    if *r.payload() != 72 {
                                        e.err("survivor", format!("{what}: the second pending response received {}", *r.payload()));
                                    }
                                }
                                Ok(None) => {}
                                Err(_) => {}
                            }
                        }
                        if let Some(a) = g.get::<ActiveRequest<S, u64, (), u64, ()>>("active2") {
                            if **a != 9 {
                                e.err("survivor", format!("{what}: the second held request payload changed to {}", **a));
                            }
                            let _ = a.send_copy(72);
                        }
                        if let Some(r) = g.get::<iceoryx2::response::Response<S, u64, ()>>("response2") {
                            if *r.payload() != 72 {
                                e.err("survivor", format!("{what}: the held response of the second request changed to {}", *r.payload()));
                            }
                        }
                        if let Some(r) = g.get::<iceoryx2::response::Response<S, u64, ()>>("response") {
                            if *r.payload() != 70 {
                                e.err("survivor", format!("{what}: the held response changed to {}", *r.payload()));
                            }
                        }
                        if let Some(c) = g.get::<Client<S, u64, (), u64, ()>>("port1") {
                            match c.send_copy(8) {
                                Ok(p) => {
                                    e.probe("survivor_client_sent");
                                    drop(p);
                                }
                                Err(_) => e.probe("survivor_client_refused"),
                            }
                        }
                        if let Some(s) = g.get::<Server<S, u64, (), u64, ()>>("port2") {
                            match s.receive() {
                                Ok(Some(a)) => {
                                    e.probe("survivor_server_received");
                                    drop(a);
                                }
                                Ok(None) => {}
                                Err(_) => {}
                            }
                        }
                    }
                    _ => {
                        if let Some(n) = g.get::<Notifier<S>>("port1") {
                            match n.notify() {
                                Ok(_) => e.probe("survivor_notifier_notified"),
                                Err(err) => e.err("survivor", format!("{what}: notify on the surviving notifier failed with {err:?}")),
                            }
                        }
                        if let Some(l) = g.get::<Listener<S>>("port2") {
                            match l.try_wait(|_| {}) {
                                Ok(_) => e.probe("survivor_listener_waited"),
                                Err(err) => e.err("survivor", format!("{what}: try_wait on the surviving listener failed with {err:?}")),
                            }
                        }
                    }
                }
            }
            _ => {}
        }
        if !errs.lock().unwrap().errs.is_empty() {
            return config;
        }
    }
    // whatever the plan left alive is dropped now, in slot order
    for i in 0..g.objs.len() {
        if g.objs[i].is_some() {
            errs.lock().unwrap().drop_order.push(g.names[i].to_string());
            let o = g.objs[i].take();
            drop(o);
        }
    }
    // the same name can be used again, with different settings
    let node = match NodeBuilder::new().config(&config).create::<S>() {
        Ok(n) => n,
        Err(e) => {
            errs.lock().unwrap().err("reuse", format!("a node cannot be created after everything was dropped: {e:?}"));
            return config;
        }
    };
    match node.service_builder(&sname).publish_subscribe::<u8>().max_publishers(1).create() {
        Ok(s) => drop(s),
        Err(e) => errs.lock().unwrap().err("reuse", format!("the service name cannot be created afresh with different settings after everything was dropped: {e:?}")),
    }
    drop(node);
    config
}

pub struct ShutdownHarness {
    pub ipc: bool,
}
impl Harness for ShutdownHarness {
    fn name(&self) -> &'static str {
        if self.ipc { "c17.shutdown_ipc" } else { "c17.shutdown_local" }
    }
    fn property(&self) -> &'static str {
        "C17"
    }
    fn modes(&self) -> Vec<(&'static str, u32, bool)> {
        vec![("seq", 1, true)]
    }
    fn quick_runs(&self) -> u64 {
        if self.ipc { 2500 } else { 2500 }
    }
    fn isolate(&self) -> bool {
        true
    }
    fn components(&self) -> Value {
        json!({"real": ["iceoryx2 nodes, services, ports, samples, requests/responses, their destructors", if self.ipc { "ipc concepts (files, shm) under an isolated root/prefix, leftover scan of the file system" } else { "local concepts" }], "stub": ["clock", "pid", "choice of the drop order"]})
    }
    fn generate(&self, r: &mut Rng, mode: &str) -> (Plan, CfgSer) {
        let mut params = BTreeMap::new();
        params.insert("pattern".into(), r.range(0, 2));
        params.insert("two_nodes".into(), r.chance(0.5) as i64);
        params.insert("svc".into(), r.range(0, 1_000_000));
        let mut ops = Vec::new();
        for _ in 0..r.range(4, 18) {
            if r.chance(0.7) { ops.push(Op::new("drop", &[r.range(0, 9)])) } else { ops.push(Op::new("use", &[])) }
        }
        let plan = Plan { harness: self.name().into(), mode: mode.into(), params, threads: vec![ops] };
        let mut cfg = CfgSer::base();
        cfg.step_cap = 3_000_000;
        (plan, cfg)
    }
    fn execute(&self, plan: &Plan, cfg: &CfgSer, dec: Decisions) -> RunResult {
        let errs = Arc::new(Mutex::new(Errs::default()));
        let e2 = errs.clone();
        let plan2 = plan.clone();
        let ipc = self.ipc;
        crate::kit::crashnote::install_segv_reporter();
        let mut report = sim_run(cfg.to_cfg(), dec, move || {
            if ipc {
                let _ = scenario::<ipc::Service>(&plan2, &e2);
            } else {
                let _ = scenario::<local::Service>(&plan2, &e2);
            }
        });
        let pid = unsafe { libc::getpid() };
        let left = leftovers("sd", pid);
        let _defer_removal = ();
        if std::env::var("VSIM_LEFT").is_ok() {
            eprintln!("LEFT {:?} order {:?} params {:?}", left, errs.lock().map(|e| e.drop_order.clone()).unwrap_or_default(), plan.params);
        }
        #[allow(unused_mut)]
        let mut g = take_after_run(&errs);
        // what is documented to persist per domain: the nodes/ and services/ directories and the
        // domain-wide management segment
        let root = root_of(pid);
        let unexpected: Vec<String> = left
            .iter()
            .filter(|p| {
                let is_domain_dir = **p == format!("{root}/nodes") || **p == format!("{root}/services");
                let is_global_mgmt = p.contains("global_mgmt");
                !(is_domain_dir || is_global_mgmt)
            })
            .cloned()
            .collect();
        if g.errs.is_empty() && report.outcome == Outcome::Ok && !unexpected.is_empty() {
            let order = g.drop_order.clone();
            // an empty per-node directory nodes/<node id> is the signature of a known finding
            let only_empty_node_dirs = unexpected.iter().all(|p| {
                let rest = p.strip_prefix(&format!("{root}/nodes/")).unwrap_or("/");
                !rest.is_empty() && rest.chars().all(|c| c.is_ascii_digit()) && std::path::Path::new(p).is_dir()
            });
            let node_dropped_before_others = order.iter().position(|n| n.starts_with("node_")).map(|i| i + 1 < order.len()).unwrap_or(false);
            if only_empty_node_dirs && node_dropped_before_others {
                g.err("leftover-empty-node-directory", format!("after everything was dropped (order {order:?}) the per-node directories {unexpected:?} remain (empty)"));
            } else {
                g.err("leftover", format!("after everything was dropped (order {order:?}) these resources remain: {unexpected:?}"));
            }
        }
        remove_leftovers("sd", pid);
        let mut violation = g.errs.first().map(|(c, m)| Violation { class: c.clone(), msg: m.clone() });
        let mut inconclusive = false;
        if violation.is_none() {
            match &report.outcome {
                Outcome::Ok => {}
                Outcome::StepCap => inconclusive = true,
                Outcome::Deadlock { blocked } => violation = viol("blocked", format!("a drop or a call blocked for ever (threads {blocked:?})")),
                Outcome::Panic { thread, msg } => violation = viol("panic", format!("thread {thread} panicked (drop order so far {:?}): {}", g.drop_order, &msg[..msg.len().min(300)])),
            }
        }
        report.chooses = plan.ops() as u64;
        report.sched_sig = hash_str(&format!("{:?}{}", g.drop_order, plan.p("pattern") * 2 + plan.p("two_nodes")));
        let probes = g.probes.iter().map(|(k, v)| (*k, *v)).collect();
        RunResult { report, violation, beyond: None, probes, inconclusive }
    }
}
