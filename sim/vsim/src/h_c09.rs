// C09 — concurrent index allocation is exclusive, bounded and leak-free (DESIGN.md §6.9).
use crate::kit::lin::{self, Lin, Spec};
use crate::kit::*;
use iceoryx2_bb_lock_free::mpmc::robust_unique_index_set::{OwnerId, StaticRobustUniqueIndexSet};
use iceoryx2_bb_lock_free::mpmc::unique_index_set::FixedSizeUniqueIndexSet;
use iceoryx2_bb_lock_free::mpmc::unique_index_set_enums::{ReleaseMode, ReleaseState, UniqueIndexSetAcquireFailure};
use iceoryx2_bb_memory::pool_allocator::{Allocate, Deallocate, FixedSizePoolAllocator};
use iceoryx2_pal_concurrency_sync::sim::{self, Decisions, Outcome, rng::Rng};
use serde_json::{Value, json};
use std::collections::BTreeMap;
use std::sync::{Arc, Mutex};

#[derive(Clone, Copy, Debug, PartialEq, Eq, Hash)]
pub enum AcqRes {
    Got(usize),
    Out,
    Locked,
}

#[derive(Clone, Debug, PartialEq, Eq, Hash)]
pub enum POp {
    Acquire(AcqRes),
    /// index, lock-if-last requested, reported locked (one atomic step)
    Release(usize, bool, bool),
    /// second step of a two-step lock-if-last release (robust set): "lock if nothing is borrowed"
    LockCheck(bool),
    /// operations of a killed thread that never returned: effect unknown
    PendingAcquire,
    PendingRelease(usize, bool),
    PendingLockCheck,
    /// first step of an acquire of the robust set that ends with IsLocked: the implementation claims a cell
    /// first and reads the lock indicator afterwards, so such an acquire may hold an index for a moment (and,
    /// the set being locked for ever, never gives it back); an acquire that runs concurrently can therefore be
    /// told OutOfIndices although every *completed* holder has released — the set is being locked at that very
    /// moment, which the property allows ("fails only when all indices are genuinely taken or the set was locked")
    TransientClaim,
    /// recovery of one index of the dead ("ghost") owner; a recover call is a sequence of these
    RecoverOne(usize),
    /// setup: the ghost owner acquires an index and dies
    GhostAcquire(usize),
}

pub struct PoolSpec {
    pub cap: usize,
}
impl Spec for PoolSpec {
    /// (held bitmask | ghost-owned bitmask << 16, locked)
    type S = (u32, bool);
    type O = POp;
    fn init(&self) -> (u32, bool) {
        (0, false)
    }
    fn step(&self, s0: &(u32, bool), op: &POp) -> Vec<(u32, bool)> {
        let full = (1u32 << self.cap) - 1;
        let ghost = s0.0 >> 16;
        // ghost-owned indices count as held for everybody else
        let s = &((s0.0 & 0xffff) | ghost, s0.1);
        let keep = |v: Vec<(u32, bool)>, g: u32| -> Vec<(u32, bool)> { v.into_iter().map(|(h, l)| (((h & 0xffff) & !g) | (g << 16), l)).collect() };
        let one = |x: Option<(u32, bool)>| -> Vec<(u32, bool)> { keep(x.into_iter().collect(), ghost) };
        match op {
            POp::GhostAcquire(i) => {
                if s.0 & (1 << i) != 0 || s.1 {
                    return vec![];
                }
                keep(vec![(s.0, s.1)], ghost | (1 << i))
            }
            POp::RecoverOne(i) => {
                if ghost & (1 << i) == 0 {
                    return vec![];
                }
                keep(vec![(s.0 & !(1 << i), s.1)], ghost & !(1 << i))
            }
            POp::Acquire(AcqRes::Got(i)) => one(if !s.1 && *i < self.cap && s.0 & (1 << i) == 0 { Some((s.0 | (1 << i), false)) } else { None }),
            POp::Acquire(AcqRes::Out) => one(if !s.1 && s.0 == full { Some(*s) } else { None }),
            POp::Acquire(AcqRes::Locked) => one(if s.1 { Some(*s) } else { None }),
            POp::Release(i, lil, locked) => {
                if s.0 & (1 << i) == 0 || ghost & (1 << i) != 0 {
                    return vec![];
                }
                let h = s.0 & !(1 << i);
                let becomes_locked = s.1 || (*lil && h == 0);
                one(if becomes_locked == *locked { Some((h, becomes_locked)) } else { None })
            }
            POp::LockCheck(locked) => {
                let becomes_locked = s.1 || s.0 == 0;
                one(if becomes_locked == *locked { Some((s.0, becomes_locked)) } else { None })
            }
            // stands for an Acquire(Out) that overlapped an acquire ending with IsLocked: no constraint, no effect
            POp::TransientClaim => keep(vec![*s], ghost),
            POp::PendingAcquire => {
                if s.1 {
                    return keep(vec![*s], ghost);
                }
                keep((0..self.cap).filter(|i| s.0 & (1 << i) == 0).map(|i| (s.0 | (1 << i), false)).collect(), ghost)
            }
            POp::PendingRelease(i, lil) => {
                if s.0 & (1 << i) == 0 {
                    return vec![];
                }
                let h = s.0 & !(1 << i);
                let mut v = vec![(h, s.1)];
                if *lil && h == 0 {
                    v.push((h, true));
                }
                keep(v, ghost)
            }
            POp::PendingLockCheck => {
                let mut v = vec![*s];
                if s.0 == 0 {
                    v.push((s.0, true));
                }
                keep(v, ghost)
            }
        }
    }
}

pub trait Pool: Send + Sync + 'static {
    fn acquire(&self, owner: u64) -> AcqRes;
    fn release(&self, idx: usize, owner: u64, lock_if_last: bool) -> bool;
    fn borrowed(&self) -> usize;
    fn is_locked(&self) -> bool;
    fn recover(&self, _owner: u64) -> Vec<usize> {
        Vec::new()
    }
    /// lock-if-last is implemented as release followed by a separate lock step
    fn two_step_lock(&self) -> bool {
        false
    }
}

impl Pool for FixedSizeUniqueIndexSet<4> {
    fn acquire(&self, _o: u64) -> AcqRes {
        match unsafe { self.acquire_raw_index() } {
            Ok(i) => AcqRes::Got(i as usize),
            Err(UniqueIndexSetAcquireFailure::OutOfIndices) => AcqRes::Out,
            Err(UniqueIndexSetAcquireFailure::IsLocked) => AcqRes::Locked,
        }
    }
    fn release(&self, idx: usize, _o: u64, lil: bool) -> bool {
        unsafe { self.release_raw_index(idx as u32, if lil { ReleaseMode::LockIfLastIndex } else { ReleaseMode::Default }) == ReleaseState::Locked }
    }
    fn borrowed(&self) -> usize {
        self.borrowed_indices()
    }
    fn is_locked(&self) -> bool {
        FixedSizeUniqueIndexSet::is_locked(self)
    }
}

impl Pool for StaticRobustUniqueIndexSet<4> {
    fn acquire(&self, o: u64) -> AcqRes {
        match StaticRobustUniqueIndexSet::acquire(self, OwnerId::new(o).unwrap()) {
            Ok(i) => AcqRes::Got(i),
            Err(UniqueIndexSetAcquireFailure::OutOfIndices) => AcqRes::Out,
            Err(UniqueIndexSetAcquireFailure::IsLocked) => AcqRes::Locked,
        }
    }
    fn release(&self, idx: usize, o: u64, lil: bool) -> bool {
        match StaticRobustUniqueIndexSet::release(self, idx, OwnerId::new(o).unwrap(), if lil { ReleaseMode::LockIfLastIndex } else { ReleaseMode::Default }) {
            Ok(s) => s == ReleaseState::Locked,
            Err(_) => panic!("release of an owned index was refused"),
        }
    }
    fn borrowed(&self) -> usize {
        self.borrowed_indices()
    }
    fn is_locked(&self) -> bool {
        StaticRobustUniqueIndexSet::is_locked(self)
    }
    fn two_step_lock(&self) -> bool {
        true
    }
    fn recover(&self, owner: u64) -> Vec<usize> {
        let mut v = Vec::new();
        StaticRobustUniqueIndexSet::recover(self, ReleaseMode::Default, |o, _| o == OwnerId::new(owner).unwrap(), |_, i| v.push(i));
        v
    }
}

const BUCKET: usize = 32;
pub struct PoolAlloc {
    a: FixedSizePoolAllocator<8>,
    mem: Box<[u64; 4 * BUCKET / 8]>,
    cap: usize,
    errs: Mutex<Vec<String>>,
}
unsafe impl Send for PoolAlloc {}
unsafe impl Sync for PoolAlloc {}
impl PoolAlloc {
    fn new(cap: usize) -> Self {
        let mut mem = Box::new([0u64; 4 * BUCKET / 8]);
        let ptr = core::ptr::NonNull::new(mem.as_mut_ptr() as *mut u8).unwrap();
        let a = FixedSizePoolAllocator::<8>::new(core::alloc::Layout::from_size_align(BUCKET, 8).unwrap(), ptr, cap * BUCKET);
        PoolAlloc { a, mem, cap, errs: Mutex::new(Vec::new()) }
    }
}
impl Pool for PoolAlloc {
    fn acquire(&self, _o: u64) -> AcqRes {
        match self.a.allocate(core::alloc::Layout::from_size_align(BUCKET - 8, 8).unwrap()) {
            Ok(p) => {
                let base = self.mem.as_ptr() as usize;
                let a = p.as_ptr() as *const u8 as usize;
                if a < base || a + BUCKET > base + self.cap * BUCKET || (a - base) % BUCKET != 0 || a % 8 != 0 {
                    self.errs.lock().unwrap().push(format!("allocation at offset {} is outside the segment / misaligned", a as isize - base as isize));
                    return AcqRes::Got(usize::MAX);
                }
                AcqRes::Got((a - base) / BUCKET)
            }
            Err(_) => AcqRes::Out,
        }
    }
    fn release(&self, idx: usize, _o: u64, _lil: bool) -> bool {
        let p = unsafe { core::ptr::NonNull::new_unchecked((self.mem.as_ptr() as *mut u8).add(idx * BUCKET)) };
        unsafe { self.a.deallocate(p, core::alloc::Layout::from_size_align(BUCKET - 8, 8).unwrap()) };
        false
    }
    fn borrowed(&self) -> usize {
        usize::MAX
    }
    fn is_locked(&self) -> bool {
        false
    }
}

#[derive(Default)]
struct Shared {
    ops: Vec<POp>,
    thread_of: Vec<usize>,
    inv: Vec<lin::Mark>,
    ret: Vec<Option<lin::Mark>>,
    holder: BTreeMap<usize, usize>,          // index -> thread that holds it (bookkeeping interval ⊂ real ownership)
    last_release: BTreeMap<usize, sim::Token>, // index -> token taken at invocation of its latest release
    held_by: Vec<Vec<usize>>,
    inflight_release: Vec<Option<usize>>,
    inflight_acquire: Vec<bool>,
    errs: Vec<(String, String)>,
    beyond: Vec<(String, String)>,
    probes: BTreeMap<&'static str, u64>,
    lock_returned: Option<lin::Mark>,
    epilogue_start: Option<usize>,
    killed: bool,
    ghost_remaining: Vec<usize>,
    /// recover results per history op index
    recovered: BTreeMap<usize, Vec<usize>>,
}
impl Shared {
    fn err(&mut self, c: &str, m: String) {
        if self.errs.len() < 4 {
            self.errs.push((c.into(), m));
        }
    }
    fn probe(&mut self, k: &'static str) {
        *self.probes.entry(k).or_default() += 1;
    }
}
fn mk() -> lin::Mark {
    let (s, c) = sim::mark();
    lin::Mark { stamp: s, clock: c }
}

fn do_acquire<P: Pool>(p: &P, sh: &Arc<Mutex<Shared>>, tid: usize, cap: usize, hb_deciding: bool) -> AcqRes {
    let idx;
    {
        let m = mk();
        let mut g = sh.lock().unwrap();
        idx = g.ops.len();
        g.ops.push(POp::Acquire(AcqRes::Out));
        g.thread_of.push(tid);
        g.inv.push(m);
        g.ret.push(None);
        g.inflight_acquire[tid] = true;
    }
    let r = p.acquire(tid as u64 + 1);
    let m = mk();
    let mut g = sh.lock().unwrap();
    g.ops[idx] = POp::Acquire(r);
    g.ret[idx] = Some(m);
    g.inflight_acquire[tid] = false;
    match r {
        AcqRes::Got(i) => {
            if i >= cap {
                g.err("bounds", format!("acquire returned index {i} but the capacity is {cap}"));
                return r;
            }
            if let Some(o) = g.holder.get(&i).cloned() {
                if o == GHOST_TID {
                    // taken over from the dead owner while a recover is in flight: the linearizability
                    // check decides whether a recover really freed it
                    g.probe("acquired_index_freed_by_concurrent_recover");
                } else {
                    g.err("double-owner", format!("index {i} handed to thread {tid} while thread {o} still holds it"));
                }
            }
            if let Some(t) = g.last_release.get(&i).cloned() {
                g.probe("index_reused");
                if !lin::clock_le(&t.0, &m.clock) {
                    let e = ("no-happens-before".to_string(), format!("index {i} re-acquired without a happens-before edge from its previous release"));
                    if hb_deciding { g.errs.push(e) } else { g.beyond.push(e) }
                }
            }
            g.holder.insert(i, tid);
            g.held_by[tid].push(i);
        }
        AcqRes::Out => g.probe("acquire_saw_out_of_indices"),
        AcqRes::Locked => g.probe("acquire_saw_locked"),
    }
    r
}

pub const GHOST_TID: usize = 7;
pub const GHOST_OWNER: u64 = 99;

fn do_recover<P: Pool>(p: &P, sh: &Arc<Mutex<Shared>>, tid: usize) {
    let idx;
    {
        let m = mk();
        let mut g = sh.lock().unwrap();
        idx = g.ops.len();
        g.ops.push(POp::RecoverOne(usize::MAX));
        g.thread_of.push(tid);
        g.inv.push(m);
        g.ret.push(None);
    }
    let r = p.recover(GHOST_OWNER);
    let m = mk();
    let mut g = sh.lock().unwrap();
    g.ret[idx] = Some(m);
    for i in r.iter() {
        if let Some(pos) = g.ghost_remaining.iter().position(|x| x == i) {
            g.ghost_remaining.remove(pos);
            if g.holder.get(i) == Some(&GHOST_TID) {
                g.holder.remove(i);
            }
            g.last_release.insert(*i, sim::Token(m.clock));
            g.probe("recovered_index_of_dead_owner");
        } else {
            let m_ = format!("recover of the dead owner reported index {i} which it does not own (any more); remaining {:?}", g.ghost_remaining);
            g.err("recover", m_);
        }
    }
    g.recovered.insert(idx, r);
}

fn do_release<P: Pool>(p: &P, sh: &Arc<Mutex<Shared>>, tid: usize, k: usize, lil: bool) {
    let (idx, i);
    {
        let m = mk();
        let mut g = sh.lock().unwrap();
        if g.held_by[tid].is_empty() {
            return;
        }
        let pos = k % g.held_by[tid].len();
        i = g.held_by[tid].remove(pos);
        g.holder.remove(&i);
        g.last_release.insert(i, sim::Token(m.clock));
        g.inflight_release[tid] = Some(i);
        idx = g.ops.len();
        g.ops.push(POp::Release(i, lil, false));
        g.thread_of.push(tid);
        g.inv.push(m);
        g.ret.push(None);
    }
    let locked = p.release(i, tid as u64 + 1, lil);
    let m = mk();
    let mut g = sh.lock().unwrap();
    g.ops[idx] = POp::Release(i, lil, locked);
    g.ret[idx] = Some(m);
    g.inflight_release[tid] = None;
    if locked {
        g.probe("release_locked_the_set");
        if g.lock_returned.is_none() {
            g.lock_returned = Some(m);
        }
    }
}

fn body<P: Pool>(p: Arc<P>, plan: Plan, sh: Arc<Mutex<Shared>>, cap: usize, hb_deciding: bool, killable: i64) {
    sim::arena(Arc::as_ptr(&p) as *const u8, core::mem::size_of::<P>());
    let nt = plan.threads.len();
    {
        let mut g = sh.lock().unwrap();
        g.held_by = vec![Vec::new(); nt + 1];
        g.inflight_release = vec![None; nt + 1];
        g.inflight_acquire = vec![false; nt + 1];
    }
    // a dead ("ghost") owner that acquired some indices and vanished
    for _ in 0..plan.p("ghost") {
        if let AcqRes::Got(i) = p.acquire(GHOST_OWNER) {
            let m = mk();
            let mut g = sh.lock().unwrap();
            g.ops.push(POp::GhostAcquire(i));
            g.thread_of.push(GHOST_TID);
            g.inv.push(m);
            g.ret.push(Some(m));
            g.holder.insert(i, GHOST_TID);
            g.ghost_remaining.push(i);
        }
    }
    let mut hs = Vec::new();
    for (t, ops) in plan.threads.iter().enumerate() {
        let (p, sh, ops) = (p.clone(), sh.clone(), ops.clone());
        let kill_me = killable == t as i64 + 1;
        hs.push(sim::spawn(&format!("W{t}"), move || {
            if kill_me {
                sim::set_killable(true);
            }
            for o in ops.iter() {
                match o.c.as_str() {
                    "acq" => {
                        do_acquire(&*p, &sh, t, cap, hb_deciding);
                    }
                    "rel" => do_release(&*p, &sh, t, o.arg(0) as usize, o.arg(1) != 0),
                    "rec" => do_recover(&*p, &sh, t),
                    _ => {}
                }
            }
        }));
    }
    let mut dead: Option<usize> = None;
    for (t, h) in hs.into_iter().enumerate() {
        if h.join().is_err() {
            dead = Some(t);
        }
    }
    // epilogue (sequential, thread id nt)
    let me = nt;
    {
        let mut g = sh.lock().unwrap();
        g.epilogue_start = Some(g.ops.len());
        g.killed = dead.is_some();
    }
    if let Some(d) = dead {
        sh.lock().unwrap().probe("thread_killed");
        let locked_before = p.is_locked();
        let rec = p.recover(d as u64 + 1);
        let mut g = sh.lock().unwrap();
        if !locked_before {
            let held: Vec<usize> = g.held_by[d].clone();
            let infl_rel = g.inflight_release[d];
            let infl_acq = g.inflight_acquire[d];
            for i in held.iter() {
                if !rec.contains(i) {
                    g.err("recover", format!("recover of dead owner {d} did not return its index {i} (returned {rec:?})"));
                }
            }
            for i in rec.iter() {
                let fine = held.contains(i) || infl_rel == Some(*i) || (infl_acq && !g.holder.contains_key(i));
                if !fine {
                    g.err("recover", format!("recover of dead owner {d} returned index {i} which it did not own (held {held:?})"));
                }
                if let Some(o) = g.holder.get(i).cloned() {
                    if o != d {
                        g.err("recover", format!("recover of dead owner {d} returned index {i} held by live thread {o}"));
                    }
                }
            }
            for i in held {
                g.holder.remove(&i);
            }
            g.held_by[d].clear();
            g.probe("recovered_dead_owner");
        }
    }
    if plan.p("ghost") > 0 && !p.is_locked() {
        let before: Vec<usize> = sh.lock().unwrap().ghost_remaining.clone();
        do_recover(&*p, &sh, me);
        let mut g = sh.lock().unwrap();
        if !g.ghost_remaining.is_empty() {
            let m_ = format!("sequential recover of the dead owner did not return its indices {:?} (of {before:?})", g.ghost_remaining);
            g.err("recover", m_);
            let rest = g.ghost_remaining.clone();
            for i in rest {
                g.holder.remove(&i);
            }
        }
    }
    // quiescent checks
    let (held_now, locked_model): (Vec<usize>, bool) = {
        let g = sh.lock().unwrap();
        (g.holder.keys().cloned().collect(), g.lock_returned.is_some())
    };
    let b = p.borrowed();
    if b != usize::MAX && !p.is_locked() && dead.is_none() && b != held_now.len() {
        sh.lock().unwrap().err("count", format!("borrowed_indices() = {b} at quiescence but {} indices are held", held_now.len()));
    }
    if locked_model && !p.is_locked() {
        sh.lock().unwrap().err("lock", "a release reported Locked but the set is not locked at quiescence".into());
    }
    // everything that is not held must be acquirable (exactly once), unless locked
    let mut got = Vec::new();
    for _ in 0..cap + 1 {
        match do_acquire(&*p, &sh, me, cap, false) {
            AcqRes::Got(i) => got.push(i),
            _ => break,
        }
    }
    let mut g = sh.lock().unwrap();
    if p.is_locked() {
        if !got.is_empty() {
            g.err("lock", format!("acquire succeeded ({got:?}) although the set is locked"));
        }
    } else {
        let mut expect: Vec<usize> = (0..cap).filter(|i| !held_now.contains(i)).collect();
        let mut got_s = got.clone();
        got_s.sort();
        expect.sort();
        if got_s != expect {
            g.err("leak", format!("at quiescence indices {expect:?} should be acquirable, got {got_s:?} (held {held_now:?})"));
        }
    }
}

pub struct PoolHarness {
    pub kind: &'static str, // "uis" | "robust" | "alloc"
}

impl Harness for PoolHarness {
    fn name(&self) -> &'static str {
        match self.kind {
            "uis" => "c09.unique_index_set",
            "robust" => "c09.robust_unique_index_set",
            _ => "c09.pool_allocator",
        }
    }
    fn property(&self) -> &'static str {
        "C09"
    }
    fn modes(&self) -> Vec<(&'static str, u32, bool)> {
        vec![("sc", 4, true), ("weak", 5, true)]
    }
    fn quick_runs(&self) -> u64 {
        50_000
    }
    fn components(&self) -> Value {
        json!({"real": ["iceoryx2-bb-lock-free mpmc::{unique_index_set, robust_unique_index_set}", "iceoryx2-bb-memory pool_allocator"], "stub": ["atomic ordering semantics", "thread scheduler", "thread death = never scheduled again"]})
    }
    fn generate(&self, r: &mut Rng, mode: &str) -> (Plan, CfgSer) {
        let cap = r.range(1, 4);
        let nt = r.range(2, 3);
        let lock_allowed = self.kind != "alloc";
        let mut threads = Vec::new();
        for _ in 0..nt {
            let n = r.range(2, 6);
            let mut ops = Vec::new();
            let mut held = 0;
            for _ in 0..n {
                if held > 0 && r.chance(0.5) {
                    let lil = lock_allowed && r.chance(0.15);
                    ops.push(Op::new("rel", &[r.range(0, 3), lil as i64]));
                    held -= 1;
                } else {
                    ops.push(Op::new("acq", &[]));
                    held += 1;
                }
            }
            threads.push(ops);
        }
        let mut params = BTreeMap::new();
        params.insert("cap".into(), cap);
        let ghost = if self.kind == "robust" && r.chance(0.4) { r.range(1, cap) } else { 0 };
        params.insert("ghost".into(), ghost);
        if ghost > 0 {
            for t in threads.iter_mut() {
                if r.chance(0.7) {
                    let pos = r.range(0, t.len() as i64) as usize;
                    t.insert(pos, Op::new("rec", &[]));
                }
            }
        }
        let kill = if self.kind == "robust" && ghost == 0 && r.chance(0.3) { r.range(1, nt) } else { 0 };
        params.insert("kill".into(), kill);
        let plan = Plan { harness: self.name().into(), mode: mode.into(), params, threads };
        let mut cfg = CfgSer::base();
        cfg.step_cap = 6000;
        cfg.draw_strategy(r, 80);
        if mode == "weak" {
            cfg.weak = true;
            cfg.stale_prob = *r.pick(&[0.1, 0.3, 0.5]);
            cfg.cas_weak_fail_prob = 0.05;
        }
        if kill != 0 {
            cfg.max_kills = 1;
            cfg.kill_prob = 0.06;
        }
        (plan, cfg)
    }
    fn execute(&self, plan: &Plan, cfg: &CfgSer, dec: Decisions) -> RunResult {
        let sh = Arc::new(Mutex::new(Shared::default()));
        let sh2 = sh.clone();
        let cap = plan.p("cap") as usize;
        let kill = plan.p("kill");
        let p = plan.clone();
        let mut alloc_errs: Option<Arc<PoolAlloc>> = None;
        let two_step = self.kind == "robust";
        let report = match self.kind {
            "uis" => {
                let s = Arc::new(FixedSizeUniqueIndexSet::<4>::new_with_reduced_capacity(cap).unwrap());
                sim_run(cfg.to_cfg(), dec, move || body(s, p, sh2, cap, true, kill))
            }
            "robust" => {
                let s = Arc::new(StaticRobustUniqueIndexSet::<4>::new_with_reduced_capacity(cap).unwrap());
                sim_run(cfg.to_cfg(), dec, move || body(s, p, sh2, cap, false, kill))
            }
            _ => {
                let s = Arc::new(PoolAlloc::new(cap));
                alloc_errs = Some(s.clone());
                sim_run(cfg.to_cfg(), dec, move || body(s, p, sh2, cap, true, kill))
            }
        };
        let g = sh.lock().unwrap();
        let mut violation = None;
        let mut inconclusive = false;
        if let Some(a) = &alloc_errs {
            if let Some(e) = a.errs.lock().unwrap().first() {
                violation = viol("bounds", e.clone());
            }
        }
        if violation.is_none() {
            if let Some((c, m)) = g.errs.first() {
                violation = viol(c, m.clone());
            }
        }
        if violation.is_none() {
            match &report.outcome {
                Outcome::Ok => {}
                Outcome::StepCap => inconclusive = true,
                Outcome::Deadlock { blocked } => violation = viol("deadlock", format!("threads {blocked:?} blocked for ever")),
                Outcome::Panic { thread, msg } => violation = viol("panic", format!("thread {thread} panicked: {msg}")),
            }
        }
        if violation.is_none() && !inconclusive && g.ops.len() <= 40 {
            let spec = PoolSpec { cap };
            // after a kill the recovery step is not an operation of the specification: judge the history up to it
            let n_ops = if g.killed { g.epilogue_start.unwrap_or(g.ops.len()) } else { g.ops.len() };
            // expand: pending operations get their "unknown effect" form, two-step releases are split
            let mut ops: Vec<POp> = Vec::new();
            let mut src: Vec<usize> = Vec::new(); // index into g.ops
            let mut second: Vec<bool> = Vec::new();
            let mut excused_out = 0u64;
            for i in 0..n_ops {
                let done = g.ret[i].is_some();
                match (&g.ops[i], done) {
                    (POp::Acquire(_), false) => { ops.push(POp::PendingAcquire); src.push(i); second.push(false); }
                    (POp::Release(x, lil, _), false) => {
                        if two_step && *lil {
                            ops.push(POp::PendingRelease(*x, false)); src.push(i); second.push(false);
                            ops.push(POp::PendingLockCheck); src.push(i); second.push(true);
                        } else {
                            ops.push(POp::PendingRelease(*x, *lil)); src.push(i); second.push(false);
                        }
                    }
                    (POp::Acquire(AcqRes::Out), true) if two_step && (0..n_ops).any(|j| j != i && matches!(g.ops[j], POp::Acquire(AcqRes::Locked) | POp::Acquire(AcqRes::Out)) && matches!(g.ops[j], POp::Acquire(AcqRes::Locked)) && g.inv[j].stamp < g.ret[i].as_ref().unwrap().stamp && g.ret[j].as_ref().map(|r| r.stamp > g.inv[i].stamp).unwrap_or(true)) => {
                        // see POp::TransientClaim: an OutOfIndices that overlaps an acquire ending with IsLocked
                        excused_out += 1;
                        ops.push(POp::TransientClaim); src.push(i); second.push(false);
                    }
                    (POp::Release(x, lil, locked), true) if two_step && *lil => {
                        ops.push(POp::Release(*x, false, false)); src.push(i); second.push(false);
                        ops.push(POp::LockCheck(*locked)); src.push(i); second.push(true);
                    }
                    (POp::RecoverOne(_), true) => {
                        for x in g.recovered.get(&i).cloned().unwrap_or_default() {
                            ops.push(POp::RecoverOne(x)); src.push(i); second.push(false);
                        }
                    }
                    (POp::RecoverOne(_), false) => {}
                    (o, _) => { ops.push(o.clone()); src.push(i); second.push(false); }
                }
            }
            let completed: Vec<bool> = src.iter().map(|i| g.ret[*i].is_some()).collect();
            let weak = cfg.weak;
            let prec = |a: usize, b: usize| -> bool {
                if src[a] == src[b] {
                    return !second[a] && second[b];
                }
                match &g.ret[src[a]] {
                    None => false,
                    Some(ra) => {
                        if weak { lin::clock_le(&ra.clock, &g.inv[src[b]].clock) } else { ra.stamp < g.inv[src[b]].stamp }
                    }
                }
            };
            if ops.len() <= 60 {
                match lin::check(&spec, &ops, &completed, &prec, 400_000) {
                    Lin::Ok => {}
                    Lin::Inconclusive => inconclusive = true,
                    Lin::Violation => {
                        let hist: Vec<String> = (0..n_ops).map(|i| format!("T{}:{:?}{}[{}..{}]", g.thread_of[i], g.ops[i], if g.ret[i].is_none() { "(never returned)" } else { "" }, g.inv[i].stamp, g.ret[i].as_ref().map(|r| r.stamp.to_string()).unwrap_or_else(|| "-".into()))).collect();
                        violation = viol("not-linearizable", format!("history has no linearization against the index-pool specification (cap {cap}): {hist:?}"));
                    }
                }
            }
        }
        let beyond = g.beyond.first().map(|(c, m)| Violation { class: c.clone(), msg: m.clone() });
        let probes = g.probes.iter().map(|(k, v)| (*k, *v)).collect();
        RunResult { report, violation, beyond, probes, inconclusive }
    }
}
