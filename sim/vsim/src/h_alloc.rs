// C15 — shm allocators: disjoint, aligned, in-bounds memory; resizing keeps data (DESIGN.md §6.15).
//
// c15.dynamic_segment_{local,ipc} (E-api): seeded histories of slice publish-subscribe calls with publishers
// whose data segment is Static / BestFit / PowerOfTwo, loans of growing (and awkward) lengths, subscribers that
// hold samples across the growth of the segment, publishers dropped right after a growth. The delivery model of
// C01 runs in lock-step (so that the expected sample is known); the C15 oracle is about memory: every payload
// is self-describing (stamp, length, position-dependent words), every held sample and every outstanding loan is
// re-read after every call of anybody, payload addresses must be aligned and must not overlap other live
// payloads of the same process view, loans inside the limits never fail with OutOfMemory, over-long loans on a
// Static segment fail with ExceedsMaxLoanSize. The one documented loss (publisher reallocated and vanished
// before the subscriber mapped the new segment) is modelled and counted.
//
// c15.allocator_histories (E-reloc history engine): allocate/deallocate histories on the bb pool allocator, the
// bump allocators, the one-chunk allocator and the shm pool allocator (through offsets), over real payload memory
// with unaligned starts and awkward layouts; interval model (in bounds, aligned, large enough, disjoint, reuse
// after free, documented error on impossible requests); the management block of the shm allocator is relocated
// at seeded points (the fault).
use crate::h_ps::{MPub, MSub, Model, isolated_config, leftovers, remove_leftovers};
use crate::h_reloc::{Arena, PAGE};
use crate::kit::*;
use iceoryx2::port::LoanError;
use iceoryx2::port::publisher::{Publisher, PublisherCreateError};
use iceoryx2::port::subscriber::Subscriber;
use iceoryx2::port::update_connections::UpdateConnections;
use iceoryx2::prelude::*;
use iceoryx2::sample::Sample;
use iceoryx2::sample_mut::SampleMut;
use iceoryx2_bb_elementary_traits::zero_copy_send::ZeroCopySend;
use iceoryx2_pal_concurrency_sync::sim::{Decisions, Outcome, rng::Rng};
use serde_json::{Value, json};
use std::collections::{BTreeMap, VecDeque};
use std::fmt::Debug;
use std::sync::{Arc, Mutex};

pub trait Elem: Copy + Debug + PartialEq + ZeroCopySend + Send + Sync + 'static {
    const MIN_LEN: usize;
    const NAME: &'static str;
    /// element `i` of the payload with tag `t` and length `len`
    fn at(t: u64, len: usize, i: usize) -> Self;
    /// recover the tag from a payload
    fn tag(p: &[Self]) -> Option<u64>;
}
impl Elem for u64 {
    const MIN_LEN: usize = 1;
    const NAME: &'static str = "u64";
    fn at(t: u64, len: usize, i: usize) -> u64 {
        if i == 0 { t } else { t ^ ((i as u64) << 48) ^ ((len as u64) << 20) ^ 0x5a5a }
    }
    fn tag(p: &[u64]) -> Option<u64> {
        p.first().copied()
    }
}
impl Elem for u8 {
    const MIN_LEN: usize = 8;
    const NAME: &'static str = "u8";
    fn at(t: u64, len: usize, i: usize) -> u8 {
        if i < 8 { (t >> (8 * i)) as u8 } else { (t as u8) ^ (i as u8).wrapping_mul(31) ^ (len as u8) }
    }
    fn tag(p: &[u8]) -> Option<u64> {
        if p.len() < 8 {
            return None;
        }
        let mut t = 0u64;
        for i in 0..8 {
            t |= (p[i] as u64) << (8 * i);
        }
        Some(t)
    }
}
fn intact<E: Elem>(p: &[E], t: u64, len: usize) -> bool {
    p.len() == len && p.iter().enumerate().all(|(i, x)| *x == E::at(t, len, i))
}

#[derive(Default)]
pub struct Errs {
    pub errs: Vec<(String, String)>,
    pub probes: BTreeMap<&'static str, u64>,
    pub inconclusive: bool,
    /// address-free observation log (the run's fingerprint where atomics hold absolute addresses)
    pub obs: u64,
}
impl Errs {
    fn probe(&mut self, k: &'static str) {
        *self.probes.entry(k).or_default() += 1;
    }
    fn err(&mut self, c: &str, m: String) {
        if self.errs.len() < 4 {
            self.errs.push((c.into(), m));
        }
    }
}

struct RPub<S: Service, E: Elem> {
    p: Publisher<S, [E], ()>,
    /// (tag, len, loan)
    loans: Vec<(u64, usize, SampleMut<S, [E], ()>)>,
    strategy: i64,
    init_len: usize,
    /// largest slice loaned so far (a loan above init_len forces a reallocation)
    max_len_seen: usize,
}
struct RSub<S: Service, E: Elem> {
    s: Subscriber<S, [E], ()>,
    held: Vec<(u64, usize, Sample<S, [E], ()>)>,
}

fn strategy_of(k: i64) -> AllocationStrategy {
    match k {
        0 => AllocationStrategy::Static,
        1 => AllocationStrategy::BestFit,
        _ => AllocationStrategy::PowerOfTwo,
    }
}

/// every live payload this process can see: held samples and outstanding loans; they must be intact, aligned
/// and pairwise disjoint (two views of the same chunk — a sample received from one's own service — coincide)
fn check_memory<S: Service, E: Elem>(pubs: &[Option<RPub<S, E>>], subs: &[Option<RSub<S, E>>], e: &mut Errs, after: &str) {
    let mut ranges: Vec<(usize, usize, u64, &'static str)> = Vec::new();
    for s in subs.iter().flatten() {
        for (t, len, smp) in s.held.iter() {
            let p = smp.payload();
            if !intact(p, *t, *len) {
                e.err("payload-changed", format!("after {after}: a held sample (stamp {t:#x}, {len} elements of {}) now reads {:x?} — its memory was reused, moved or unmapped state is visible while it is still referenced", E::NAME, &p[..p.len().min(6)]));
            }
            ranges.push((p.as_ptr() as usize, core::mem::size_of_val(p), *t, "sample"));
        }
    }
    for rp in pubs.iter().flatten() {
        for (t, len, l) in rp.loans.iter() {
            let p = l.payload();
            if !intact(p, *t, *len) {
                e.err("loan-changed", format!("after {after}: an outstanding loan (tag {t:#x}, {len} elements of {}) now reads {:x?}", E::NAME, &p[..p.len().min(6)]));
            }
            ranges.push((p.as_ptr() as usize, core::mem::size_of_val(p), *t, "loan"));
        }
    }
    for r in &ranges {
        if r.0 % core::mem::align_of::<E>() != 0 {
            e.err("misaligned", format!("after {after}: the payload of {} {:#x} lies at {:#x}, not aligned to {}", r.3, r.2, r.0, core::mem::align_of::<E>()));
        }
    }
    ranges.sort();
    for w in ranges.windows(2) {
        let (a, b) = (w[0], w[1]);
        if a.2 != b.2 && a.0 + a.1 > b.0 && a.1 > 0 && b.1 > 0 {
            e.err("overlap", format!("after {after}: live payloads overlap: {} {:#x} at [{:#x},+{}) and {} {:#x} at [{:#x},+{})", a.3, a.2, a.0, a.1, b.3, b.2, b.0, b.1));
        }
    }
}

fn run_scenario<S: Service, E: Elem>(plan: &Plan, errs: &Arc<Mutex<Errs>>, tag: &str) {
    let config = isolated_config(tag);
    let node = match NodeBuilder::new().config(&config).create::<S>() {
        Ok(n) => n,
        Err(e) => {
            errs.lock().unwrap().err("setup", format!("node creation failed: {e:?}"));
            return;
        }
    };
    let p = |k: &str| plan.p(k) as usize;
    let mut m = Model {
        overflow: plan.p("overflow") != 0,
        history_size: p("history"),
        max_borrow: p("max_borrow"),
        max_buffer: p("max_buffer"),
        max_pubs: p("max_pubs"),
        max_subs: p("max_subs"),
        pubs: vec![None, None, None],
        subs: vec![None, None, None],
        next_id: 1,
        doc_loss: 0,
    };
    let sname: ServiceName = format!("vsim/dyn/{}", plan.p("svc")).as_str().try_into().unwrap();
    let service = match node
        .service_builder(&sname)
        .publish_subscribe::<[E]>()
        .enable_safe_overflow(m.overflow)
        .history_size(m.history_size)
        .subscriber_max_borrowed_samples(m.max_borrow)
        .subscriber_max_buffer_size(m.max_buffer)
        .max_publishers(m.max_pubs)
        .max_subscribers(m.max_subs)
        .create()
    {
        Ok(s) => s,
        Err(e) => {
            errs.lock().unwrap().err("setup", format!("service creation failed: {e:?}"));
            return;
        }
    };
    let mut pubs: Vec<Option<RPub<S, E>>> = vec![None, None, None];
    let mut subs: Vec<Option<RSub<S, E>>> = vec![None, None, None];
    // stamp -> (length, strategy of the sending publisher)
    let mut sent: BTreeMap<u64, (usize, i64)> = BTreeMap::new();
    // model publisher ids that were dynamic and are gone (their undelivered samples may be lost, documented)
    let mut vanished_dynamic: Vec<u64> = Vec::new();
    let mut next_tag: u64 = 0xA000_0000_0000_0000;

    for (opi, o) in plan.threads[0].iter().enumerate() {
        let mut e = errs.lock().unwrap();
        let what = format!("op #{opi} {}{:?}", o.c, o.a);
        crate::kit::crashnote::set(&what);
        let i = o.arg(0) as usize % 3;
        match o.c.as_str() {
            "cp" => {
                if pubs[i].is_some() {
                    continue;
                }
                let max_loaned = (o.arg(1) as usize).max(1);
                let strategy = o.arg(2);
                let init_len = (o.arg(3) as usize).max(E::MIN_LEN);
                let r = service.publisher_builder().max_loaned_samples(max_loaned).initial_max_slice_len(init_len).allocation_strategy(strategy_of(strategy)).backpressure_strategy(BackpressureStrategy::DiscardData).create();
                match r {
                    Ok(pb) => {
                        let id = m.next_id;
                        m.next_id += 1;
                        m.pubs[i] = Some(MPub { id, max_loaned, loans: 0, history: VecDeque::new(), conns: BTreeMap::new(), seq: 0 });
                        m.pub_update(i);
                        pubs[i] = Some(RPub { p: pb, loans: Vec::new(), strategy, init_len, max_len_seen: 0 });
                        e.probe("publisher_created");
                    }
                    Err(PublisherCreateError::ExceedsMaxSupportedPublishers) => {
                        if m.alive_pubs() < m.max_pubs {
                            e.err("spurious-limit", format!("{what}: ExceedsMaxSupportedPublishers although only {} of {} publishers exist", m.alive_pubs(), m.max_pubs));
                        }
                    }
                    Err(err) => e.err("create-error", format!("{what}: publisher creation failed with {err:?}")),
                }
            }
            "dp" => {
                if let Some(rp) = pubs[i].take() {
                    let id = m.pubs[i].as_ref().unwrap().id;
                    if rp.strategy != 0 {
                        vanished_dynamic.push(id);
                    }
                    if rp.max_len_seen > rp.init_len {
                        e.probe("publisher_dropped_after_growth");
                    }
                    drop(rp.loans);
                    drop(rp.p);
                    m.drop_pub(i);
                }
            }
            "cs" => {
                if subs[i].is_some() {
                    continue;
                }
                let (buffer, hist_req) = ((o.arg(1) as usize).clamp(1, m.max_buffer), (o.arg(2) as usize).min(m.history_size));
                let hist_req = hist_req.min(buffer);
                match service.subscriber_builder().buffer_size(buffer).history_request(hist_req).create() {
                    Ok(sb) => {
                        let id = m.next_id;
                        m.next_id += 1;
                        m.subs[i] = Some(MSub { id, buffer, hist_req, expired: Vec::new(), held: Vec::new(), attached: Vec::new() });
                        m.sub_update(i);
                        subs[i] = Some(RSub { s: sb, held: Vec::new() });
                    }
                    Err(iceoryx2::port::subscriber::SubscriberCreateError::ExceedsMaxSupportedSubscribers) => {
                        if m.alive_subs() < m.max_subs {
                            e.err("spurious-limit", format!("{what}: ExceedsMaxSupportedSubscribers although only {} of {} exist", m.alive_subs(), m.max_subs));
                        }
                    }
                    Err(err) => e.err("create-error", format!("{what}: subscriber creation failed with {err:?}")),
                }
            }
            "ds" => {
                if let Some(rs) = subs[i].take() {
                    drop(rs.held);
                    drop(rs.s);
                    m.subs[i] = None;
                }
            }
            "loan" | "send" => {
                let send_now = o.c == "send";
                if let Some(rp) = pubs[i].as_mut() {
                    let mp = m.pubs[i].as_mut().unwrap();
                    // "send" prefers an outstanding loan
                    if send_now && !rp.loans.is_empty() && o.arg(2) % 2 == 0 {
                        let k = o.arg(1) as usize % rp.loans.len();
                        let (t, len, mut l) = rp.loans.remove(k);
                        if !intact(l.payload(), t, len) {
                            e.err("loan-changed", format!("{what}: the loan with tag {t:#x} was modified before it was sent"));
                        }
                        mp.seq += 1;
                        let stamp = (mp.id << 32) | mp.seq;
                        for (j, x) in l.payload_mut().iter_mut().enumerate() {
                            *x = E::at(stamp, len, j);
                        }
                        mp.loans -= 1;
                        sent.insert(stamp, (len, rp.strategy));
                        let r = l.send();
                        let expected = m.send(i, stamp);
                        match r {
                            Ok(n) => {
                                e.probe("sent");
                                if n != expected {
                                    e.err("recipients", format!("{what}: send reported {n} recipients, the model expects {expected}"));
                                }
                            }
                            Err(err) => e.err("send-error", format!("{what}: send failed with {err:?}")),
                        }
                    } else {
                        let len = (o.arg(1) as usize).max(E::MIN_LEN);
                        if mp.loans >= mp.max_loaned {
                            match rp.p.loan_slice_uninit(len) {
                                Err(LoanError::ExceedsMaxLoans) => e.probe("loan_refused_max_loans"),
                                Err(LoanError::ExceedsMaxLoanSize) if rp.strategy == 0 && len > rp.init_len => {}
                                Ok(_) => e.err("limit-not-enforced", format!("{what}: loan succeeded although {} of {} loans are out", mp.loans, mp.max_loaned)),
                                Err(err) => e.err("wrong-error", format!("{what}: loan beyond max_loaned_samples failed with {err:?}")),
                            }
                        } else {
                            match rp.p.loan_slice_uninit(len) {
                                Ok(l) => {
                                    if rp.strategy == 0 && len > rp.init_len {
                                        e.err("limit-not-enforced", format!("{what}: a loan of {len} elements succeeded on a Static segment whose initial_max_slice_len is {}", rp.init_len));
                                    }
                                    if len > rp.max_len_seen.max(rp.init_len) {
                                        e.probe("loan_forced_growth");
                                        let holders = subs.iter().flatten().filter(|s| !s.held.is_empty()).count();
                                        if holders > 0 {
                                            e.probe("growth_while_subscriber_holds_samples");
                                        }
                                        if !rp.loans.is_empty() {
                                            e.probe("growth_while_loans_outstanding");
                                        }
                                    }
                                    rp.max_len_seen = rp.max_len_seen.max(len);
                                    if l.payload().len() != len {
                                        e.err("wrong-size", format!("{what}: the loan has {} elements instead of {len}", l.payload().len()));
                                    }
                                    if send_now {
                                        mp.seq += 1;
                                        let stamp = (mp.id << 32) | mp.seq;
                                        let l = l.write_from_fn(|j| E::at(stamp, len, j));
                                        sent.insert(stamp, (len, rp.strategy));
                                        let r = l.send();
                                        let expected = m.send(i, stamp);
                                        match r {
                                            Ok(n) => {
                                                e.probe("sent");
                                                if n != expected {
                                                    e.err("recipients", format!("{what}: send reported {n} recipients, the model expects {expected}"));
                                                }
                                            }
                                            Err(err) => e.err("send-error", format!("{what}: send failed with {err:?}")),
                                        }
                                    } else {
                                        next_tag += 1;
                                        let t = next_tag;
                                        let l = l.write_from_fn(|j| E::at(t, len, j));
                                        mp.loans += 1;
                                        rp.loans.push((t, len, l));
                                    }
                                }
                                Err(LoanError::ExceedsMaxLoanSize) => {
                                    e.probe("loan_refused_max_loan_size");
                                    if !(rp.strategy == 0 && len > rp.init_len) {
                                        e.err("spurious-limit", format!("{what}: ExceedsMaxLoanSize for {len} elements (strategy {:?}, initial_max_slice_len {})", strategy_of(rp.strategy), rp.init_len));
                                    }
                                }
                                Err(LoanError::OutOfMemory) => {
                                    e.err("out-of-memory", format!("{what}: loan of {len} elements failed with OutOfMemory although the publisher is within its limits ({} of {} loans out, strategy {:?}, initial_max_slice_len {})", mp.loans, mp.max_loaned, strategy_of(rp.strategy), rp.init_len));
                                }
                                Err(err) => e.err("loan-error", format!("{what}: loan failed with {err:?}")),
                            }
                        }
                    }
                }
            }
            "dl" => {
                if let Some(rp) = pubs[i].as_mut() {
                    if !rp.loans.is_empty() {
                        let k = o.arg(1) as usize % rp.loans.len();
                        drop(rp.loans.remove(k));
                        m.pubs[i].as_mut().unwrap().loans -= 1;
                    }
                }
            }
            "pupd" => {
                if let Some(rp) = pubs[i].as_ref() {
                    if let Err(err) = rp.p.update_connections() {
                        e.err("update-error", format!("{what}: publisher update_connections failed: {err:?}"));
                    }
                    m.pub_update(i);
                }
            }
            "supd" => {
                if let Some(rs) = subs[i].as_ref() {
                    if let Err(err) = rs.s.update_connections() {
                        e.err("update-error", format!("{what}: subscriber update_connections failed: {err:?}"));
                    }
                    m.sub_update(i);
                }
            }
            "recv" => {
                if let Some(rs) = subs[i].as_mut() {
                    m.sub_update(i);
                    let (heads, _with_data) = m.receivable(i);
                    match rs.s.receive() {
                        Ok(Some(smp)) => {
                            e.probe("received");
                            let pl = smp.payload();
                            match E::tag(pl).and_then(|t| sent.get(&t).map(|x| (t, *x))) {
                                None => e.err("corrupt", format!("{what}: received a payload of {} elements starting {:x?} that was never sent", pl.len(), &pl[..pl.len().min(6)])),
                                Some((stamp, (len, _))) => {
                                    if !intact(pl, stamp, len) {
                                        e.err("corrupt", format!("{what}: sample {stamp:#x} was sent with {len} elements; received {} elements starting {:x?} — the offset does not resolve to the memory that was written", pl.len(), &pl[..pl.len().min(6)]));
                                    } else if heads.contains(&(stamp >> 32, stamp)) {
                                        m.take(i, stamp >> 32, stamp);
                                        rs.held.push((stamp, len, smp));
                                    } else {
                                        // the delivery order is C01's business; keep the models in step as well as possible
                                        e.inconclusive = true;
                                        rs.held.push((stamp, len, smp));
                                        m.subs[i].as_mut().unwrap().held.push((stamp, stamp >> 32));
                                    }
                                }
                            }
                        }
                        Ok(None) => {
                            if !heads.is_empty() {
                                // documented: a dynamic publisher that vanished after reallocating; the chunk of an
                                // expired connection is dropped by the receiver
                                let ms = m.subs[i].as_ref().unwrap();
                                let cands: Vec<(u64, u64)> = heads.iter().filter(|h| vanished_dynamic.contains(&h.0) && ms.expired.iter().any(|x| x.0 == h.0)).cloned().collect();
                                if cands.is_empty() {
                                    e.err("lost", format!("{what}: receive returned nothing although samples {:x?} of living or static publishers are deliverable", heads));
                                } else if cands.len() == 1 {
                                    e.probe("documented_loss_dynamic_publisher_vanished_after_reallocation");
                                    let (pid, stamp) = cands[0];
                                    m.take(i, pid, stamp);
                                    let ms = m.subs[i].as_mut().unwrap();
                                    ms.held.retain(|h| h.0 != stamp);
                                } else {
                                    e.inconclusive = true;
                                    break;
                                }
                            }
                        }
                        Err(iceoryx2::port::ReceiveError::ExceedsMaxBorrows) => {}
                        Err(err) => e.err("receive-error", format!("{what}: receive failed with {err:?}")),
                    }
                }
            }
            "rel" => {
                if let Some(rs) = subs[i].as_mut() {
                    if !rs.held.is_empty() {
                        let k = o.arg(1) as usize % rs.held.len();
                        let (stamp, _, smp) = rs.held.remove(k);
                        drop(smp);
                        let ms = m.subs[i].as_mut().unwrap();
                        if let Some(pos) = ms.held.iter().position(|h| h.0 == stamp) {
                            ms.held.remove(pos);
                        }
                    }
                }
            }
            _ => {}
        }
        check_memory(&pubs, &subs, &mut e, &what);
        if !e.errs.is_empty() || e.inconclusive {
            break;
        }
    }
    crate::kit::crashnote::set("tear-down");
    drop(subs);
    drop(pubs);
    drop(service);
    drop(node);
}

pub struct DynSegmentHarness {
    pub ipc: bool,
}
impl Harness for DynSegmentHarness {
    fn name(&self) -> &'static str {
        if self.ipc { "c15.dynamic_segment_ipc" } else { "c15.dynamic_segment_local" }
    }
    fn property(&self) -> &'static str {
        "C15"
    }
    fn modes(&self) -> Vec<(&'static str, u32, bool)> {
        vec![("seq", 1, true)]
    }
    fn quick_runs(&self) -> u64 {
        if self.ipc { 1500 } else { 2500 }
    }
    fn isolate(&self) -> bool {
        true
    }
    fn components(&self) -> Value {
        json!({"real": ["iceoryx2 slice publish-subscribe, publishers with Static/BestFit/PowerOfTwo data segments (resizable shared memory, shm pool allocator, pointer offsets with segment ids), subscribers mapping reallocated segments", if self.ipc { "ipc concepts: POSIX shared memory segments under an isolated root/prefix" } else { "local (process-local) concepts" }], "stub": ["clock", "pid", "choice of which party acts next"]})
    }
    fn generate(&self, r: &mut Rng, mode: &str) -> (Plan, CfgSer) {
        let max_buffer = r.range(1, 4);
        let history = r.range(0, 2.min(max_buffer));
        let mut params = BTreeMap::new();
        params.insert("overflow".into(), r.chance(0.5) as i64);
        params.insert("history".into(), history);
        params.insert("max_borrow".into(), r.range(1, 4));
        params.insert("max_buffer".into(), max_buffer);
        params.insert("max_pubs".into(), r.range(1, 2));
        params.insert("max_subs".into(), r.range(1, 2));
        params.insert("svc".into(), r.range(0, 1_000_000));
        params.insert("elem".into(), r.range(0, 1));
        // lengths: a slowly growing ceiling makes successive loans outgrow the segment again and again
        let base_len = r.range(1, 24);
        let growth = [0, 1, 3, 17][r.below(4) as usize];
        let fixed_strategy = if r.chance(0.5) { r.range(0, 2) } else { -1 };
        let mut ops = Vec::new();
        let n = r.range(12, 60);
        let mut ceiling = base_len;
        let gen_cp = |r: &mut Rng, i: i64, ceiling: i64| {
            let s = if fixed_strategy >= 0 { fixed_strategy } else { r.range(0, 2) };
            Op::new("cp", &[i, r.range(1, 3), s, r.range(1, ceiling.max(1))])
        };
        for _ in 0..n {
            let i = r.range(0, 1);
            let k = r.below(100);
            ceiling += if r.chance(0.3) { growth } else { 0 };
            let len = if r.chance(0.15) { r.range(1, 4) } else { r.range((ceiling / 2).max(1), ceiling + 1) };
            let op = if k < 5 {
                gen_cp(r, i, ceiling)
            } else if k < 9 {
                Op::new("dp", &[i])
            } else if k < 14 {
                Op::new("cs", &[i, r.range(1, max_buffer), r.range(0, history)])
            } else if k < 16 {
                Op::new("ds", &[i])
            } else if k < 26 {
                Op::new("loan", &[i, len])
            } else if k < 28 {
                Op::new("dl", &[i, r.range(0, 3)])
            } else if k < 58 {
                Op::new("send", &[i, len, r.range(0, 1)])
            } else if k < 60 {
                Op::new("pupd", &[i])
            } else if k < 62 {
                Op::new("supd", &[i])
            } else if k < 86 {
                Op::new("recv", &[i])
            } else {
                Op::new("rel", &[i, r.range(0, 3)])
            };
            ops.push(op);
        }
        if r.chance(0.4) {
            // the scenario the property singles out, with seeded parameters: a subscriber holds several samples
            // of the old segment, the publisher grows (possibly more than once), the subscriber receives from the
            // new segment and releases old and new samples in a seeded order, then the random history continues
            let max_borrow = params["max_borrow"];
            let strategy = if fixed_strategy > 0 { fixed_strategy } else { r.range(1, 2) };
            let mut pre = vec![Op::new("cp", &[0, r.range(1, 3), strategy, base_len]), Op::new("cs", &[0, max_buffer, 0])];
            let mut len = base_len;
            for _ in 0..r.range(1, 3) {
                let n_old = r.range(1, max_borrow.min(max_buffer));
                for _ in 0..n_old {
                    pre.push(Op::new("send", &[0, len, 1]));
                }
                for _ in 0..n_old {
                    pre.push(Op::new("recv", &[0]));
                }
                len += r.range(1, 40);
                if r.chance(0.3) {
                    pre.push(Op::new("loan", &[0, len]));
                } else {
                    pre.push(Op::new("send", &[0, len, 1]));
                    pre.push(Op::new("recv", &[0]));
                }
                for _ in 0..r.range(0, 3) {
                    pre.push(Op::new("rel", &[0, r.range(0, 3)]));
                }
                if r.chance(0.2) {
                    pre.push(Op::new("dp", &[0]));
                    pre.push(Op::new("cp", &[0, r.range(1, 3), strategy, base_len]));
                }
            }
            pre.append(&mut ops);
            ops = pre;
        } else {
            ops.insert(0, gen_cp(r, 0, base_len));
            ops.insert(1, Op::new("cs", &[0, r.range(1, max_buffer), 0]));
        }
        let plan = Plan { harness: self.name().into(), mode: mode.into(), params, threads: vec![ops] };
        let mut cfg = CfgSer::base();
        cfg.step_cap = 4_000_000;
        (plan, cfg)
    }
    fn execute(&self, plan: &Plan, cfg: &CfgSer, dec: Decisions) -> RunResult {
        let errs = Arc::new(Mutex::new(Errs::default()));
        let e2 = errs.clone();
        let plan2 = plan.clone();
        let ipc = self.ipc;
        let elem = plan.p("elem");
        crate::kit::crashnote::install_segv_reporter();
        let report = sim_run(cfg.to_cfg(), dec, move || match (ipc, elem) {
            (true, 0) => run_scenario::<ipc::Service, u64>(&plan2, &e2, "dy"),
            (true, _) => run_scenario::<ipc::Service, u8>(&plan2, &e2, "dy"),
            (false, 0) => run_scenario::<local::Service, u64>(&plan2, &e2, "dy"),
            (false, _) => run_scenario::<local::Service, u8>(&plan2, &e2, "dy"),
        });
        let pid = unsafe { libc::getpid() };
        let _ = leftovers("dy", pid);
        remove_leftovers("dy", pid);
        #[allow(unused_mut)]
        let mut g = take_after_run(&errs);
        let mut violation = g.errs.first().map(|(c, m)| Violation { class: c.clone(), msg: m.clone() });
        let mut inconclusive = g.inconclusive;
        if violation.is_none() {
            match &report.outcome {
                Outcome::Ok => {}
                Outcome::StepCap => inconclusive = true,
                Outcome::Deadlock { blocked } => violation = viol("deadlock", format!("threads {blocked:?} blocked for ever")),
                Outcome::Panic { thread, msg } => violation = viol("panic", format!("thread {thread} panicked: {}", &msg[..msg.len().min(400)])),
            }
        }
        let mut report = report;
        report.chooses = plan.ops() as u64;
        report.sched_sig = hash_str(&serde_json::to_string(&plan.threads).unwrap());
        let probes = g.probes.iter().map(|(k, v)| (*k, *v)).collect();
        RunResult { report, violation, beyond: None, probes, inconclusive }
    }
}

// ---------------------------------------------------------------------------------------
// allocator histories

#[derive(Clone, Debug)]
struct Live {
    addr: usize,
    size: usize,
    align: usize,
    tag: u8,
}

fn fill(addr: usize, size: usize, tag: u8) {
    unsafe { core::ptr::write_bytes(addr as *mut u8, tag, size) };
}
fn check_fill(l: &Live) -> bool {
    let s = unsafe { core::slice::from_raw_parts(l.addr as *const u8, l.size) };
    s.iter().all(|b| *b == l.tag)
}

struct Intervals {
    lo: usize,
    hi: usize,
    live: Vec<Live>,
    next_tag: u8,
}
impl Intervals {
    /// judge a successful allocation and register it
    fn on_alloc(&mut self, addr: usize, size: usize, align: usize, usable: usize, what: &str) -> Result<(), (String, String)> {
        if addr % align != 0 {
            return Err(("misaligned".into(), format!("{what}: address {addr:#x} is not aligned to {align}")));
        }
        if addr < self.lo || addr + usable.max(size) > self.hi {
            return Err(("out-of-bounds".into(), format!("{what}: [{addr:#x},+{}) leaves the managed range [{:#x},{:#x})", usable.max(size), self.lo, self.hi)));
        }
        for l in &self.live {
            if addr < l.addr + l.size.max(1) && l.addr < addr + size.max(1) {
                return Err(("overlap".into(), format!("{what}: [{addr:#x},+{size}) overlaps the live allocation [{:#x},+{})", l.addr, l.size)));
            }
        }
        self.next_tag = self.next_tag.wrapping_add(1).max(1);
        fill(addr, size, self.next_tag);
        self.live.push(Live { addr, size, align, tag: self.next_tag });
        Ok(())
    }
    fn check_all(&self, what: &str) -> Result<(), (String, String)> {
        for l in &self.live {
            if !check_fill(l) {
                return Err(("clobbered".into(), format!("{what}: the live allocation [{:#x},+{}) no longer holds what was written into it", l.addr, l.size)));
            }
        }
        Ok(())
    }
}

const AKINDS: &[&str] = &["bb_pool", "bb_bump", "one_chunk", "shm_pool"];

fn alloc_scenario(plan: &Plan, errs: &Arc<Mutex<Errs>>) {
    use iceoryx2_bb_elementary_traits::allocator::{Allocate, AllocationError, Deallocate};
    use std::alloc::Layout;
    use std::ptr::NonNull;
    let kind = AKINDS[plan.p("kind") as usize % AKINDS.len()];
    let seg_len = plan.p("seg_len") as usize;
    let shift = plan.p("shift") as usize;
    let bucket_size = plan.p("bucket_size") as usize;
    let bucket_align = plan.p("bucket_align") as usize;
    // payload memory: real, with a guard page behind it (an access past the end is a crash)
    let pay = Arena::new(seg_len + shift + PAGE);
    let pay_len_pages = (seg_len + shift).next_multiple_of(PAGE);
    // place the range so that it ends exactly at the guard page
    let guard = unsafe { pay.ptr.add(pay_len_pages) };
    unsafe { libc::mprotect(guard as *mut libc::c_void, pay.len - pay_len_pages, libc::PROT_NONE) };
    let start = unsafe { guard.sub(seg_len) } as usize; // end-aligned: start is "unaligned" by construction
    let start = start - (start % 8) * (plan.p("keep_8_aligned") as usize); // optionally 8-aligned
    let end = start + seg_len.min(guard as usize - start);
    let seg_len = end - start;
    let mut mgmt = Arena::new(64 * 1024);
    let mut iv = Intervals { lo: start, hi: end, live: Vec::new(), next_tag: 0 };
    let mut e = errs.lock().unwrap();
    let bucket = match Layout::from_size_align(bucket_size, bucket_align) {
        Ok(l) => l,
        Err(_) => return,
    };
    let mem = unsafe { NonNull::new_unchecked(start as *mut u8) };
    let mgmt_alloc = |m: &Arena| iceoryx2_bb_elementary::bump_allocator::BumpAllocator::new(unsafe { NonNull::new_unchecked(m.ptr.add(1024)) }, m.len - 1024);
    crate::kit::crashnote::set(&format!("constructing {kind}"));
    match kind {
        "bb_pool" => {
            use iceoryx2_bb_memory::pool_allocator::PoolAllocator;
            let p = mgmt.ptr as *mut PoolAllocator;
            unsafe {
                core::ptr::write(p, PoolAllocator::new_uninit(bucket, mem, seg_len));
                if (*p).init(&mgmt_alloc(&mgmt)).is_err() {
                    return;
                }
            }
        }
        "shm_pool" => {
            use iceoryx2_cal::shm_allocator::ShmAllocator;
            use iceoryx2_cal::shm_allocator::pool_allocator::{Config, PoolAllocator};
            let p = mgmt.ptr as *mut PoolAllocator;
            let memslice = unsafe { NonNull::new_unchecked(core::ptr::slice_from_raw_parts_mut(start as *mut u8, seg_len)) };
            unsafe {
                core::ptr::write(p, PoolAllocator::new_uninit(PAGE, memslice, &Config { bucket_layout: bucket }));
                if (*p).init(&mgmt_alloc(&mgmt)).is_err() {
                    e.probe("construction_refused");
                    return;
                }
            }
        }
        "bb_bump" => {
            use iceoryx2_bb_memory::bump_allocator::BumpAllocator;
            let p = mgmt.ptr as *mut BumpAllocator;
            unsafe { core::ptr::write(p, BumpAllocator::new(mem, seg_len)) };
        }
        _ => {
            use iceoryx2_bb_memory::one_chunk_allocator::OneChunkAllocator;
            let p = mgmt.ptr as *mut OneChunkAllocator;
            unsafe { core::ptr::write(p, OneChunkAllocator::new(mem, seg_len)) };
        }
    }
    let mut oom_seen = false;
    for (opi, o) in plan.threads[0].iter().enumerate() {
        let what = format!("{kind} (segment [{start:#x},+{seg_len}), bucket {bucket_size}/{bucket_align}) op #{opi} {}{:?}", o.c, o.a);
        crate::kit::crashnote::set(&what);
        match o.c.as_str() {
            "reloc" => {
                if kind == "shm_pool" {
                    mgmt.relocate(o.arg(0) as usize);
                    e.probe("management_block_relocated");
                }
            }
            "alloc" => {
                let size = o.arg(0) as usize;
                let align = 1usize << (o.arg(1) as u32 % 13);
                let l = Layout::from_size_align(size, align).unwrap();
                let r: Result<(usize, usize), AllocationError> = match kind {
                    "bb_pool" => {
                        let a = unsafe { &*(mgmt.ptr as *mut iceoryx2_bb_memory::pool_allocator::PoolAllocator) };
                        a.allocate(l).map(|p| (p.as_ptr() as *mut u8 as usize, a.bucket_size()))
                    }
                    "shm_pool" => {
                        use iceoryx2_cal::shm_allocator::ShmAllocator;
                        let a = unsafe { &*(mgmt.ptr as *mut iceoryx2_cal::shm_allocator::pool_allocator::PoolAllocator) };
                        let ia = unsafe { a.assume_init() };
                        let r: Result<iceoryx2_cal::shm_allocator::PointerOffset, AllocationError> = ia.allocate(l);
                        r.map(|o| (start + a.relative_start_address() + o.offset(), a.bucket_size()))
                    }
                    "bb_bump" => {
                        let a = unsafe { &*(mgmt.ptr as *mut iceoryx2_bb_memory::bump_allocator::BumpAllocator) };
                        a.allocate(l).map(|p| (p.as_ptr() as *mut u8 as usize, size))
                    }
                    _ => {
                        let a = unsafe { &*(mgmt.ptr as *mut iceoryx2_bb_memory::one_chunk_allocator::OneChunkAllocator) };
                        a.allocate(l).map(|p| (p.as_ptr() as *mut u8 as usize, size))
                    }
                };
                e.obs = iceoryx2_pal_concurrency_sync::sim::rng::mix(e.obs, match &r { Ok((a, u)) => ((a - start) as u64) << 16 | *u as u64, Err(x) => 0xE000 + *x as u64 });
                match r {
                    Ok((addr, usable)) => {
                        e.probe("allocated");
                        // `usable` is the bucket size the allocator itself reports (the configured size rounded up
                        // to the bucket alignment)
                        if kind.ends_with("pool") && (size > usable || align > bucket_align || usable < bucket_size) {
                            e.err("bad-success", format!("{what}: a request of {size}/{align} was satisfied from buckets of {bucket_size}/{bucket_align} (reported bucket size {usable})"));
                        }
                        if let Err((c, m)) = iv.on_alloc(addr, size, align, usable, &what) {
                            e.err(&c, m);
                        }
                    }
                    Err(AllocationError::SizeIsZero) if size == 0 => e.probe("zero_size_refused"),
                    Err(err) => {
                        e.probe("allocation_refused");
                        let eff = if kind.ends_with("pool") { bucket_size.next_multiple_of(bucket_align) } else { bucket_size };
                        let fits_bucket = size <= eff && align <= bucket_align;
                        let certainly_too_large = size > eff || align > bucket_align;
                        match kind {
                            "bb_pool" | "shm_pool" => {
                                let nb = unsafe { (*(mgmt.ptr as *mut iceoryx2_bb_memory::pool_allocator::PoolAllocator)).number_of_buckets() } as usize;
                                let nb = if kind == "shm_pool" { unsafe { (*(mgmt.ptr as *mut iceoryx2_cal::shm_allocator::pool_allocator::PoolAllocator)).number_of_buckets() as usize } } else { nb };
                                if fits_bucket && iv.live.len() < nb {
                                    e.err("spurious-failure", format!("{what}: refused with {err:?} although {} of {nb} buckets are free and the request fits a bucket", nb - iv.live.len()));
                                }
                                if fits_bucket && err != AllocationError::OutOfMemory {
                                    e.err("wrong-error", format!("{what}: an exhausted pool must answer OutOfMemory, got {err:?}"));
                                }
                                if certainly_too_large && err == AllocationError::OutOfMemory && iv.live.len() < nb {
                                    e.err("wrong-error", format!("{what}: a request that exceeds the bucket layout must be refused with SizeTooLarge/AlignmentFailure, got {err:?}"));
                                }
                                oom_seen |= err == AllocationError::OutOfMemory;
                            }
                            "bb_bump" => {
                                // a bump allocator never reuses: it may refuse only if the request does not fit behind
                                // the highest address handed out so far
                                let top = iv.live.iter().map(|l| l.addr + l.size).max().unwrap_or(start);
                                let aligned = top.next_multiple_of(align);
                                if aligned + size <= end && !oom_seen {
                                    e.err("spurious-failure", format!("{what}: refused with {err:?} although [{aligned:#x},+{size}) is free behind the last allocation"));
                                }
                                oom_seen = true;
                            }
                            _ => {}
                        }
                    }
                }
            }
            "free" => {
                if !iv.live.is_empty() && kind.ends_with("pool") {
                    let k = o.arg(0) as usize % iv.live.len();
                    let l = iv.live.remove(k);
                    if !check_fill(&l) {
                        e.err("clobbered", format!("{what}: the allocation [{:#x},+{}) was overwritten while it was live", l.addr, l.size));
                    }
                    fill(l.addr, l.size, 0);
                    let lay = Layout::from_size_align(l.size, l.align).unwrap();
                    match kind {
                        "bb_pool" => unsafe { (*(mgmt.ptr as *mut iceoryx2_bb_memory::pool_allocator::PoolAllocator)).deallocate(NonNull::new_unchecked(l.addr as *mut u8), lay) },
                        _ => unsafe {
                            use iceoryx2_cal::shm_allocator::ShmAllocator;
                            let a = &*(mgmt.ptr as *mut iceoryx2_cal::shm_allocator::pool_allocator::PoolAllocator);
                            a.assume_init().deallocate(iceoryx2_cal::shm_allocator::PointerOffset::new(l.addr - start - a.relative_start_address()), lay)
                        },
                    }
                    e.probe("freed");
                }
            }
            _ => {}
        }
        if let Err((c, m)) = iv.check_all(&what) {
            e.err(&c, m);
        }
        if !e.errs.is_empty() {
            break;
        }
    }
}

pub struct AllocHistoryHarness;
impl Harness for AllocHistoryHarness {
    fn name(&self) -> &'static str {
        "c15.allocator_histories"
    }
    fn property(&self) -> &'static str {
        "C15"
    }
    fn modes(&self) -> Vec<(&'static str, u32, bool)> {
        vec![("seq", 1, true)]
    }
    fn quick_runs(&self) -> u64 {
        6000
    }
    fn isolate(&self) -> bool {
        true
    }
    fn components(&self) -> Value {
        json!({"real": ["iceoryx2-bb-memory PoolAllocator, BumpAllocator, OneChunkAllocator; iceoryx2-cal shm_allocator::PoolAllocator (offsets)"], "stub": ["payload memory is an anonymous mapping ending at a guard page", "relocation of the shm allocator's management block = copy + poison"]})
    }
    fn generate(&self, r: &mut Rng, mode: &str) -> (Plan, CfgSer) {
        let mut params = BTreeMap::new();
        params.insert("kind".into(), r.range(0, AKINDS.len() as i64 - 1));
        let align = 1i64 << r.range(0, 7);
        let bsize = if r.chance(0.5) { align * r.range(1, 6) } else { r.range(1, 200) };
        params.insert("bucket_align".into(), align);
        params.insert("bucket_size".into(), bsize);
        params.insert("seg_len".into(), r.range(1, 2400));
        params.insert("shift".into(), r.range(0, 64));
        params.insert("keep_8_aligned".into(), r.chance(0.5) as i64);
        let mut ops = Vec::new();
        for _ in 0..r.range(4, 50) {
            let k = r.below(100);
            if k < 55 {
                let size = if r.chance(0.6) { r.range(0, bsize + 1) } else { r.range(0, 300) };
                let al = if r.chance(0.7) { r.range(0, 6) } else { r.range(0, 12) };
                ops.push(Op::new("alloc", &[size, al]));
            } else if k < 92 {
                ops.push(Op::new("free", &[r.range(0, 9)]));
            } else {
                ops.push(Op::new("reloc", &[r.range(0, 3)]));
            }
        }
        let plan = Plan { harness: self.name().into(), mode: mode.into(), params, threads: vec![ops] };
        let mut cfg = CfgSer::base();
        cfg.step_cap = 2_000_000;
        (plan, cfg)
    }
    fn execute(&self, plan: &Plan, cfg: &CfgSer, dec: Decisions) -> RunResult {
        let errs = Arc::new(Mutex::new(Errs::default()));
        let e2 = errs.clone();
        let plan2 = plan.clone();
        crate::kit::crashnote::install_segv_reporter();
        let report = sim_run(cfg.to_cfg(), dec, move || alloc_scenario(&plan2, &e2));
        #[allow(unused_mut)]
        let mut g = take_after_run(&errs);
        let mut violation = g.errs.first().map(|(c, m)| Violation { class: c.clone(), msg: m.clone() });
        let mut inconclusive = false;
        if violation.is_none() {
            match &report.outcome {
                Outcome::Ok => {}
                Outcome::StepCap => inconclusive = true,
                Outcome::Deadlock { blocked } => violation = viol("deadlock", format!("threads {blocked:?} blocked for ever")),
                Outcome::Panic { thread, msg } => violation = viol("panic", format!("thread {thread} panicked: {}", &msg[..msg.len().min(400)])),
            }
        }
        let mut report = report;
        report.chooses = plan.ops() as u64;
        report.sched_sig = hash_str(&serde_json::to_string(plan).unwrap());
        // the OneChunkAllocator keeps an absolute address in an atomic: the simulator's event fingerprint would
        // depend on where the kernel put the mapping; use the address-free observation log instead
        report.fingerprint = iceoryx2_pal_concurrency_sync::sim::rng::mix(g.obs, report.steps);
        let probes = g.probes.iter().map(|(k, v)| (*k, *v)).collect();
        RunResult { report, violation, beyond: None, probes, inconclusive }
    }
}
