// vsim — deterministic simulation checks for iceoryx2 (see /verif/DESIGN.md).
//
//   vsim check <PROPERTY> [--tier quick|thorough] [--seed N] [--workers N] [--scale F]
//   vsim --replay <file>                  re-execute a replay file, print REPRODUCED / NOT-REPRODUCED
//   vsim --minimise <in> <out>            shrink a replay file
//   vsim --worker <harness> <seed> <from> <to> [mode]     (internal)
//   vsim --fingerprint <harness> <seed> <index> [mode]    (internal)
//   vsim selftest-determinism <harness> <n>
extern crate iceoryx2_bb_loggers;

mod h_alloc;
mod h_c03;
mod h_c05;
mod h_c09;
mod h_c10;
mod h_c12;
mod h_c17;
mod h_dom;
mod h_exp;
mod h_fault;
mod h_ffi;
mod h_proc;
mod h_ps;
mod h_reloc;
mod h_rr;
mod h_rrdyn;
mod h_thr;
mod h_ws;
mod h_zc;
mod kit;

use kit::*;

#[global_allocator]
static GLOBAL: kit::QuarantineAlloc = kit::QuarantineAlloc;

fn harnesses() -> Vec<Box<dyn Harness>> {
    vec![
        Box::new(h_ps::PubSubHarness { ipc: false, prop: "C01" }),
        Box::new(h_ps::PubSubHarness { ipc: true, prop: "C01" }),
        Box::new(h_ps::PubSubHarness { ipc: false, prop: "C02" }),
        Box::new(h_ps::PubSubHarness { ipc: true, prop: "C02" }),
        Box::new(h_thr::PubSubThreads { prop: "C01", ipc: false }),
        Box::new(h_fault::FaultHarness { prop: "C01", ipc: true }),
        Box::new(h_exp::ExpiredConnHarness { prop: "C01", ipc: true }),
        Box::new(h_exp::ExpiredConnHarness { prop: "C01", ipc: false }),
        Box::new(h_thr::PubSubThreads { prop: "C02", ipc: false }),
        Box::new(h_zc::ConnDataHarness { prop: "C02" }),
        Box::new(h_rrdyn::ReqRespDynHarness { ipc: true }),
        Box::new(h_rrdyn::ReqRespDynHarness { ipc: false }),
        Box::new(h_c03::QueueHarness { kind: "iq" }),
        Box::new(h_c03::QueueHarness { kind: "oq" }),
        Box::new(h_c03::QueueHarness { kind: "q" }),
        Box::new(h_zc::ConnDataHarness { prop: "C03" }),
        Box::new(h_c05::EventHarness { counting: false }),
        Box::new(h_c05::EventHarness { counting: true }),
        Box::new(h_proc::ProcHarness { kind: "c04" }),
        Box::new(h_proc::ProcHarness { kind: "c06" }),
        Box::new(h_proc::ProcHarness { kind: "c07" }),
        Box::new(h_ps::PubSubHarness { ipc: false, prop: "C08" }),
        Box::new(h_ps::PubSubHarness { ipc: true, prop: "C08" }),
        Box::new(h_rr::ReqRespHarness { ipc: false, prop: "C08" }),
        Box::new(h_rr::ReqRespHarness { ipc: true, prop: "C08" }),
        // the connection's queues are dimensioned from the limits (buffer, borrow): inside the limits a release
        // must never fail and nothing may be lost, whatever the interleaving of sender and receiver
        Box::new(h_zc::ConnDataHarness { prop: "C08" }),
        Box::new(h_fault::FaultHarness { prop: "C08", ipc: true }),
        Box::new(h_c09::PoolHarness { kind: "uis" }),
        Box::new(h_c09::PoolHarness { kind: "robust" }),
        Box::new(h_c09::PoolHarness { kind: "alloc" }),
        Box::new(h_c10::ContainerHarness),
        Box::new(h_rr::ReqRespHarness { ipc: false, prop: "C11" }),
        Box::new(h_rr::ReqRespHarness { ipc: true, prop: "C11" }),
        Box::new(h_thr::ReqRespThreads { ipc: false }),
        Box::new(h_fault::FaultHarness { prop: "C11", ipc: true }),
        Box::new(h_c12::AtomicHarness { typed: false }),
        Box::new(h_c12::AtomicHarness { typed: true }),
        Box::new(h_zc::ConnLifecycleHarness),
        Box::new(h_reloc::RelocHarness),
        Box::new(h_alloc::DynSegmentHarness { ipc: false }),
        Box::new(h_alloc::DynSegmentHarness { ipc: true }),
        Box::new(h_alloc::AllocHistoryHarness),
        Box::new(h_dom::DomainHarness { ipc: false }),
        Box::new(h_dom::DomainHarness { ipc: true }),
        Box::new(h_dom::SemanticEditHarness),
        Box::new(h_dom::ConceptHarness),
        Box::new(h_ffi::FfiHarness { ipc: false }),
        Box::new(h_ffi::FfiHarness { ipc: true }),
        Box::new(h_c17::ShutdownHarness { ipc: false }),
        Box::new(h_c17::ShutdownHarness { ipc: true }),
        Box::new(h_exp::ExpiredConnHarness { prop: "C17", ipc: true }),
        Box::new(h_ws::WaitSetHarness { ipc: false }),
        Box::new(h_ws::WaitSetHarness { ipc: true }),
    ]
}

fn find<'a>(hs: &'a [Box<dyn Harness>], name: &str) -> &'a dyn Harness {
    hs.iter().find(|h| h.name() == name).unwrap_or_else(|| {
        eprintln!("unknown harness {name}");
        std::process::exit(2)
    }).as_ref()
}

fn spec_for<'a>(hs: &'a [Box<dyn Harness>], prop: &'a str) -> CheckSpec<'a> {
    let list: Vec<&dyn Harness> = hs.iter().filter(|h| h.property() == prop).map(|h| h.as_ref()).collect();
    if list.is_empty() {
        eprintln!("no harness for property {prop}");
        std::process::exit(2);
    }
    let common = vec![
        "atomic.rs of iceoryx2-pal-concurrency-sync is replaced by the instrumented drop-in (layout identical); every other module is the working tree's code".to_string(),
        "weak-memory behaviours are those of a view-based release/acquire/relaxed/SeqCst fragment of C11 with coherence across happens-before; SeqCst is modelled slightly stronger than C11 (never weaker)".to_string(),
        "preemption only at atomic operations, fences and simulated blocking calls; plain writes between two yield points are split only in p1 modes".to_string(),
    ];
    let rule: &str = match prop {
        "C03" => "one evaluation = one simulated execution of a generated producer/consumer(/hand-over) program over a real queue; schedule, stale loads, write splits drawn from the run seed. distinct_nontrivial = distinct (plan, context-switch/stale-read/split/kill signature) pairs among runs with at least one context switch or injected fault",
        "C05" => "one evaluation = one simulated execution of 1..3 notifier threads (1..4 notify calls each, ids 0..2) racing a listener thread that issues a generated mix of try/timed waits and then blocks until a terminator id arrives; trigger capacity, fail_when_buffer_is_full, EINTR and notifier death are drawn per run; a deadlock with an undelivered successful notification is a lost wake-up. distinct_nontrivial = distinct (plan, schedule/fault signature) pairs among runs with at least one context switch or injected fault",
        "C10" => "one evaluation = one simulated execution of 1..2 writer threads (generated add/remove/recover sequences with unique 32-byte self-checking records, capacity 1..3 so that slots are reused) racing a reader thread that refreshes its view 1..5 times; every view is judged against the add/remove history (torn, never added, removed before the refresh began, added before and missing), plus exactness at quiescence. distinct_nontrivial = distinct (plan, schedule/fault signature) pairs among runs with at least one context switch or injected fault",
        "C12" => "one evaluation = one simulated execution of a writer performing up to 6 updates (typed store or two-step write-cell update, value sizes 1..200 bytes, alignments 1..64, self-checking versioned payloads), an optional second thread competing for the producer role, and 1..2 readers loading 1..5 times; in sc+p1 runs the writer is preempted inside its plain copy. distinct_nontrivial = distinct (plan, schedule/fault signature) pairs among runs with at least one context switch or injected fault",
        "C13" => "one evaluation = one simulated execution of 2..3 threads issuing generated attach (matching or mismatching parameters) / detach / crash-and-forced-remove operations for the sender and receiver role of one connection name over process-local storage; role exclusivity, existence while attached, removal after the last detach and re-usability of the name are checked. distinct_nontrivial = distinct (plan, schedule/fault signature) pairs among runs with at least one context switch or injected fault",
        "C01" | "C02" | "C08" => "one evaluation = one simulated history of 10..90 API calls (create/drop publisher and subscriber, loan, send, send_copy, drop loan, receive, drop sample, update_connections, has_samples, loan-to-exhaustion probe) on up to 3 publishers and 3 subscribers of one publish-subscribe service (local and ipc variants), QoS drawn per run (buffer 1..4, history 0..3, history request, max borrow 1..3, max loaned 1..3, overflow on/off, port limits 1..3), each call compared with a reference model of delivery/eviction/history/expired connections (C01), with canary payloads re-read after every call and loan-to-exhaustion probes (C02), and with the limit model (C08). Each run executes in a forked child of a warmed-up worker. distinct_nontrivial = distinct operation histories",
        "C11" => "one evaluation = one simulated history of 12..62 API calls on up to 2 clients and 2 servers of one request-response service (create/drop client or server with their pending responses/active requests going first or outliving them, send request, drop pending response, server receive, send response on any held active request, drop active request, receive on any pending response), limits 1..3, overflow and fire-and-forget drawn per run; self-describing payloads give a routing / order / at-most-once / disconnect oracle. Each run executes in a forked child. distinct_nontrivial = distinct operation histories",
        "C20" => "one evaluation = one simulated history of 8..50 calls on one wait set with 1..4 listeners on 1..2 event services: attach notification / deadline / interval, drop guard, destroy and re-create a listener (descriptor re-use), notify, notify from inside the callback, advance the virtual clock, process with zero timeout; a model of live attachments, pending events and deadline/interval expiry predicts the exact set of callbacks of every processing call. Each run executes in a forked child. distinct_nontrivial = distinct operation histories",
        "C17" => "one evaluation = one simulated life of an object graph (1..2 nodes, two service handles, two ports, loaned and received sample / pending response, active request, response / notifier, listener) for one of the three patterns publish-subscribe, request-response, event: the seeded plan interleaves 'drop some still living object' with uses of whatever is alive; afterwards the file system is scanned for leftovers and the name is created again with different settings. distinct_nontrivial = distinct (pattern, node count, complete drop order) triples",
        "C04" => "one evaluation = one controlled execution of 2 real processes on the ipc variant: a victim performing a lifecycle segment (node, service open/create, port, send/receive, event service + notifier, orderly drop) and a survivor that shares (or not) the service; the controller steps both at every wrapped system call and every atomic operation on shared memory, kills the victim with SIGKILL at a chosen yield (anywhere / biased into constructors / biased into destructors), advances virtual time past the timeouts, and then lets the survivor list nodes, clean up, re-open the service, create fresh ports and do a round trip; afterwards the files the victim alone created must be gone. distinct_nontrivial = distinct (scenario, schedule, kill point) signatures",
        "C06" => "one evaluation = one controlled execution of 2..4 real processes that create / open / open_or_create / drop the same publish-subscribe service name, each with its own settings or requirements (max publishers 2..3, max subscribers 2..3, history 0..1), interleaved by the controller at system-call and shared-memory-atomic granularity with a virtual clock; from the recorded call/return/drop observations the oracle checks: overlapping handles report identical settings, a creator's handle reports exactly its settings, no create succeeds while another process holds the service during the whole call, incompatible opens are refused and compatible ones accepted when the service lives during the whole call, every handle is usable at once, nobody ends in HangsInCreation/corrupted state, and no service resource remains after the last drop. distinct_nontrivial = distinct (scenario, schedule) signatures",
        "C07" => "one evaluation = one controlled execution of 2..4 real processes: a victim node going through creation, use and orderly destruction (or killed at a chosen yield) and 1..3 monitors/cleaners that list nodes and try to clean up, interleaved at system-call and shared-memory-atomic granularity with a virtual clock; a live process must never be reported Dead or be cleaned up, a killed one must not be reported Alive for ever, and at most one cleaner may succeed. distinct_nontrivial = distinct (scenario, schedule, kill point) signatures",
        "C14" => "one evaluation = one simulated history of 4..40 operations on one relocatable structure (RelocatableVec/Queue/String/SlotMap/FlatMap, both index queues, both index sets, bit set, registry container, used-chunk list, shm pool and bump allocator management blocks, and the FixedSize flavours) built inside an mmap'ed arena, executed in lock-step on an identical twin; at seeded points (before first use and/or between operations, probability 0.05/0.15/0.4 per operation) the arena is copied byte for byte to a fresh mapping and the old mapping is scrambled and made inaccessible for the rest of the run; every observation (return value, length, full contents, offsets handed out by the allocators) must equal the twin's, and any access to an old address kills the forked run (reported with operation and fault address). distinct_nontrivial = distinct (structure, capacity, history incl. relocation points) plans",
        "C15" => "one evaluation = either one simulated history of 12..60 slice publish-subscribe calls (create/drop publisher with allocation strategy Static/BestFit/PowerOfTwo and an initial_max_slice_len, create/drop subscriber, loan_slice_uninit of a seeded length under a growing ceiling, send, drop loan, receive, release, update_connections; element type u8 or u64; local and ipc variants) checked against the lock-step delivery model plus the memory oracle (self-describing payloads, all held samples and loans re-read after every call, alignment, pairwise disjointness, no OutOfMemory within limits, ExceedsMaxLoanSize on Static, documented loss counted), or one history of 4..50 allocate/free(/relocate management block) operations on one allocator (bb PoolAllocator, BumpAllocator, OneChunkAllocator, shm PoolAllocator) over a segment of 1..2400 bytes with a seeded misalignment that ends at a guard page, bucket layouts with size not a multiple of the alignment, request sizes 0..300 and alignments 1..4096, checked against an interval model. distinct_nontrivial = distinct plans (configuration + operation history)",
        "C19" => "one evaluation = either one simulated history of 12..60 operations of two domains (one of 8 kinds of configuration pairs: unrelated prefixes in one root; prefix of one another, both orders; unrelated roots with equal prefix; nested roots; roots that are string prefixes; nested root with extended prefix; everything different) on 2 hot service names out of 9 adversarial ones and 10 adversarial node names: node create/drop, publish-subscribe or event service open_or_create/drop, ports, send/notify, receive/wait, Node::list, Service::list, does_exist, cleanup — judged by the path monitor (every recorded path argument), the per-domain model and the data tags; or one history of 3..30 edits (push, push_bytes, insert, insert_bytes, pop, remove, remove_range, truncate, strip_prefix, strip_suffix, retain over an alphabet with separators, dots, NUL, backslash, non-ASCII) on a FileName, Path or FilePath. distinct_nontrivial = distinct plans",
        "C18" => "one evaluation = one simulated history of 8..45 lock-step operations of a C and a Rust party of each kind (publisher, subscriber, notifier, listener) on one slice publish-subscribe service and one event service (max_loaned 1..3, initial_max_slice_len 1..12, strategy Static/BestFit/PowerOfTwo, buffer 2..8, optional event deadline, creator dialect seeded): loan of a seeded length (20% beyond the initial maximum), drop loan, send loan, send_slice_copy, receive-all, notify with custom id 0..39 (ids above 31 are out of bounds), try_wait, clock advance, drop + re-create the C publisher; every call's outcome through the C API is compared with the Rust API's. distinct_nontrivial = distinct plans",
        "C09" => "one evaluation = one simulated execution of 2..3 threads doing generated acquire/release(/lock-if-last) sequences on a real index set or pool allocator of capacity 1..4, one run in four of the robust set kills a thread mid-operation and recovers its owner id; distinct_nontrivial = distinct (plan, schedule/fault signature) pairs among runs with at least one context switch or injected fault",
        _ => "one evaluation = one simulated execution of a generated scenario; distinct_nontrivial = distinct (plan, schedule/fault signature) pairs among runs with at least one context switch or injected fault",
    };
    let assumptions = common;
    // the evidence level is the one claimed in MANIFEST.json (single source of truth)
    let level: &'static str = std::fs::read_to_string("/verif/MANIFEST.json")
        .ok()
        .and_then(|t| serde_json::from_str::<serde_json::Value>(&t).ok())
        .and_then(|m| {
            m["checks"].as_array()?.iter().find(|c| c["property_id"] == prop)?["level_claimed"]["category"]
                .as_str()
                .map(|s| &*Box::leak(s.to_string().into_boxed_str()))
        })
        .unwrap_or("exploration");
    CheckSpec { property: prop, harnesses: list, level, rule, assumptions }
}

fn main() {
    let args: Vec<String> = std::env::args().collect();
    if args.len() < 2 {
        eprintln!("usage: vsim check <PROPERTY> ...");
        std::process::exit(2);
    }
    // Heap garbage must not leak into runs (reads of never-written memory, "did this plain write change
    // anything" in write splitting): let glibc fill every malloc'ed and freed block with a fixed pattern.
    if std::env::var("MALLOC_PERTURB_").is_err() {
        use std::os::unix::process::CommandExt;
        let e = std::process::Command::new(std::env::current_exe().unwrap()).args(&args[1..]).env("MALLOC_PERTURB_", "165").exec();
        eprintln!("re-exec failed: {e}");
        std::process::exit(2);
    }
    silence_panics();
    if let Some(c) = std::env::var("VSIM_CPU").ok().and_then(|c| c.parse::<usize>().ok()) {
        pin_to_cpu(c);
    }
    iceoryx2_log::set_log_level(iceoryx2_log::LogLevel::Fatal);
    // fatal messages of the code under test are outcomes (panics), not output
    struct Quiet;
    impl iceoryx2_log::Log for Quiet {
        fn log(&self, _: iceoryx2_log::LogLevel, _: core::fmt::Arguments, _: core::fmt::Arguments) {}
    }
    static QUIET: Quiet = Quiet;
    if std::env::var("VSIM_PANIC").is_err() {
        iceoryx2_log::set_logger(&QUIET);
    }
    let hs = harnesses();
    match args[1].as_str() {
        "--worker" => {
            let h = find(&hs, &args[2]);
            let seed: u64 = args[3].parse().unwrap();
            let from: u64 = args[4].parse().unwrap();
            let to: u64 = args[5].parse().unwrap();
            let mode = args.get(6).map(|s| s.as_str());
            worker(h, seed, from, to, mode, 3);
        }
        "--fingerprint" => {
            let h = find(&hs, &args[2]);
            let seed: u64 = args[3].parse().unwrap();
            let idx: u64 = args[4].parse().unwrap();
            let mode = args.get(5).map(|s| s.as_str());
            let (rs, _m, _d, plan, cfg) = derive_run(h, seed, idx, mode);
            let r = execute(h, &plan, &cfg, iceoryx2_pal_concurrency_sync::sim::Decisions::Seeded(rs));
            println!("{:016x}", r.report.fingerprint);
            if std::env::var("VSIM_TRACE").is_ok() {
                for l in &r.report.log_tail {
                    eprintln!("{l}");
                }
                eprintln!("{:?} {:?}", r.report.outcome, r.violation.map(|v| v.msg));
            }
        }
        "--replay" => {
            let rf: ReplayFile = serde_json::from_str(&std::fs::read_to_string(&args[2]).expect("read replay file")).expect("parse replay file");
            let h = find(&hs, &rf.harness);
            let r = exec_replay(h, &rf);
            let trace = args.iter().any(|a| a == "--trace");
            if trace {
                for l in &r.report.log_tail {
                    println!("  {l}");
                }
            }
            match &r.violation {
                Some(v) if v.class == rf.violation.class => {
                    let same = format!("{:016x}", r.report.fingerprint) == rf.fingerprint;
                    println!("REPRODUCED property={} harness={} class={} fingerprint_match={} msg={}", rf.property, rf.harness, v.class, same, v.msg);
                    std::process::exit(1);
                }
                Some(v) => {
                    println!("NOT-REPRODUCED (different class {}: {})", v.class, v.msg);
                    std::process::exit(3);
                }
                None => {
                    println!("NOT-REPRODUCED (no violation, outcome {:?})", r.report.outcome);
                    std::process::exit(0);
                }
            }
        }
        "--minimise" => {
            let rf: ReplayFile = serde_json::from_str(&std::fs::read_to_string(&args[2]).expect("read")).expect("parse");
            let h = find(&hs, &rf.harness);
            let m = minimise(h, &rf, 3000);
            std::fs::write(&args[3], serde_json::to_string_pretty(&m).unwrap()).unwrap();
            println!("minimised: {} -> {} deviations, {} -> {} ops; {}", rf.deviations.len(), m.deviations.len(), rf.plan.ops(), m.plan.ops(), m.note);
        }
        "check" => {
            let prop = args[2].clone();
            let mut tier = std::env::var("VERIF_TIER").unwrap_or_else(|_| "quick".into());
            let mut seed: u64 = std::env::var("VERIF_SEED").ok().and_then(|s| s.parse().ok()).unwrap_or(20260923);
            let mut workers = std::thread::available_parallelism().map(|n| n.get()).unwrap_or(8);
            let mut scale = 1.0f64;
            let mut i = 3;
            while i < args.len() {
                match args[i].as_str() {
                    "--tier" => { tier = args[i + 1].clone(); i += 1; }
                    "--seed" => { seed = args[i + 1].parse().unwrap(); i += 1; }
                    "--workers" => { workers = args[i + 1].parse().unwrap(); i += 1; }
                    "--scale" => { scale = args[i + 1].parse().unwrap(); i += 1; }
                    _ => {}
                }
                i += 1;
            }
            let spec = spec_for(&hs, &prop);
            let code = run_check(&spec, &tier, seed, workers, scale);
            std::process::exit(code);
        }
        "run" => {
            // vsim run <harness> <from> <to> [mode] : in-process, prints violations (debug aid)
            let h = find(&hs, &args[2]);
            let seed: u64 = std::env::var("VERIF_SEED").ok().and_then(|s| s.parse().ok()).unwrap_or(20260923);
            let from: u64 = args[3].parse().unwrap();
            let to: u64 = args[4].parse().unwrap();
            let mode = args.get(5).map(|s| s.as_str());
            worker(h, seed, from, to, mode, 5);
        }
        "selftest-determinism" => {
            let h = find(&hs, &args[2]);
            let n: u64 = args[3].parse().unwrap();
            let seed: u64 = std::env::var("VERIF_SEED").ok().and_then(|s| s.parse().ok()).unwrap_or(20260923);
            let mut fps = Vec::new();
            for w in [1usize, 4, 16] {
                let o = drive_harness(h, seed, n, w, (n / (w as u64 * 3)).max(8), None, 600.0);
                println!("workers={w} runs={} fp_agg={:016x} divergences={} errors={}", o.agg.runs, o.agg.fp_agg, o.determinism_divergences, o.harness_errors.len());
                for e in o.harness_errors.iter().take(10) {
                    println!("  {e}");
                }
                fps.push(o.agg.fp_agg);
            }
            if fps.iter().any(|f| *f != fps[0]) {
                println!("NONDETERMINISM");
                std::process::exit(2);
            }
            println!("deterministic");
        }
        _ => {
            eprintln!("unknown command");
            std::process::exit(2);
        }
    }
}
