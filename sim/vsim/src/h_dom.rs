// C19 — names are validated and domains are isolated (DESIGN.md §6.19). E-api with two parties that are whole
// *applications*: two domain configurations (root path and/or prefix differ, including prefixes and roots that
// are prefixes of one another) run interleaved node / service / port / listing / cleanup operations on the same
// service names. Oracles:
//  (1) path monitor at the system-call seam: every path a party hands to open/shm_open/unlink/shm_unlink/
//      remove/mkdir/rmdir/chmod while it acts lies under its own root (files) or carries its own prefix
//      (POSIX shared memory lives in one flat name space), and never names an object of the other domain;
//  (2) per-domain model: Node::list / Service::list / does_exist of a domain show exactly what that domain
//      created and has not dropped (non-interference: the other domain's actions never change them), accepted
//      node and service names round-trip unchanged;
//  (3) data never crosses: a subscriber/listener of one domain never receives what the other domain sent on
//      the equally named service;
//  (4) after both domains dropped everything, nothing of either is left.
// c19.semantic_string_edits: seeded edit histories on FileName / Path / FilePath (push, insert, remove,
// truncate, pop, strip, ...): every value reachable through successful edits must itself be accepted by the
// constructor, round-trip unchanged, and a refused edit must leave the value unchanged. (The rule "accepted
// exactly when ..." over all byte strings is a pure predicate and is not decided here.)
use crate::h_ps::{ROOT, root_of};
use crate::kit::*;
use iceoryx2::node::{NodeState, NodeView};
use iceoryx2::port::listener::Listener;
use iceoryx2::port::notifier::Notifier;
use iceoryx2::port::publisher::Publisher;
use iceoryx2::port::subscriber::Subscriber;
use iceoryx2::prelude::*;
use iceoryx2::service::port_factory::{event, publish_subscribe};
use iceoryx2_pal_concurrency_sync::sim::{Decisions, Outcome, pathlog, rng::Rng};
use serde_json::{Value, json};
use std::collections::{BTreeMap, BTreeSet};
use std::sync::{Arc, Mutex};

#[derive(Default)]
pub struct Errs {
    pub errs: Vec<(String, String)>,
    pub probes: BTreeMap<&'static str, u64>,
}
impl Errs {
    fn probe(&mut self, k: &'static str) {
        *self.probes.entry(k).or_default() += 1;
    }
    fn err(&mut self, c: &str, m: String) {
        if self.errs.len() < 4 {
            self.errs.push((c.into(), m));
        }
    }
}

const NODE_NAMES: &[&str] = &["", "n", "a/b", "..", "../../escape", "with space", "sl\\ash", "%2e%2e", "ünï", "node.with.dots"];
const SVC_NAMES: &[&str] = &["s", "a/b", "..", "../../escape", "with space", "x//y", "%00", "ünï", "My/Funk/ServiceName"];

pub type DomPay = [u64; 2];

struct Dom<S: Service> {
    tag: u64,
    config: Config,
    root: String,
    prefix: String,
    nodes: Vec<Option<(Node<S>, String)>>,
    ps: BTreeMap<usize, publish_subscribe::PortFactory<S, DomPay, ()>>,
    ev: BTreeMap<usize, event::PortFactory<S>>,
    pubs: BTreeMap<usize, Publisher<S, DomPay, ()>>,
    subs: BTreeMap<usize, Subscriber<S, DomPay, ()>>,
    nots: BTreeMap<usize, Notifier<S>>,
    lsts: BTreeMap<usize, Listener<S>>,
    pending_events: BTreeMap<usize, u64>,
    sent: BTreeMap<usize, u64>,
}

fn mk_config(root: &str, prefix: &str) -> Config {
    let _ = std::fs::create_dir_all(root);
    let mut config = Config::default();
    config.global.set_root_path(&Path::new(root.as_bytes()).unwrap());
    config.global.prefix = FileName::new(prefix.as_bytes()).unwrap();
    config.global.node.cleanup_dead_nodes_on_creation = false;
    config.global.node.cleanup_dead_nodes_on_destruction = false;
    config.global.service.cleanup_dead_nodes_on_open = false;
    config
}

/// (root A, prefix A, root B, prefix B) for a pair kind
fn pair(kind: i64, base: &str, pid: i32) -> (String, String, String, String) {
    let p = format!("vsq{pid}_");
    match kind {
        0 => (format!("{base}/r"), format!("vsqa{pid}_"), format!("{base}/r"), format!("vsqb{pid}_")),
        1 => (format!("{base}/r"), p.clone(), format!("{base}/r"), format!("{p}a_")),
        2 => (format!("{base}/r"), format!("{p}a_"), format!("{base}/r"), p.clone()),
        3 => (format!("{base}/ra"), p.clone(), format!("{base}/rb"), p.clone()),
        4 => (format!("{base}/r"), p.clone(), format!("{base}/r/sub"), p.clone()),
        5 => (format!("{base}/r"), p.clone(), format!("{base}/r_2"), p.clone()),
        6 => (format!("{base}/r/sub"), p.clone(), format!("{base}/r"), format!("{p}b_")),
        _ => (format!("{base}/ra"), format!("vsqa{pid}_"), format!("{base}/rb"), format!("vsqb{pid}_")),
    }
}

/// judge the paths one party touched during one operation
fn judge_paths(me: &(String, String), other: &(String, String), what: &str, e: &mut Errs) {
    for (kind, path) in pathlog::drain() {
        e.probe("paths_monitored");
        let (root, prefix) = (&me.0, &me.1);
        if kind.starts_with("shm_") {
            // flat name space: "/<prefix><...>"
            let name = path.trim_start_matches('/');
            if !name.starts_with(prefix.as_str()) {
                e.err("outside-domain", format!("{what}: {kind}({path:?}) — the shared memory object does not carry the domain's prefix {prefix:?}"));
            }
            if name.contains('/') || name.contains("..") {
                e.err("outside-domain", format!("{what}: {kind}({path:?}) — separator or traversal component in a shared memory name"));
            }
            // an object of the other domain (only decidable when the prefixes differ and mine is not a prefix of it)
            if other.1 != *prefix && name.starts_with(other.1.as_str()) && other.1.len() > prefix.len() {
                e.err("foreign-object", format!("{what}: {kind}({path:?}) — this object belongs to the domain with prefix {:?}", other.1));
            }
            continue;
        }
        if path.starts_with("/dev/shm/") && !path.starts_with(ROOT) {
            // the shm back-end lists /dev/shm; anything it opens there must carry the prefix
            let name = &path["/dev/shm/".len()..];
            if !name.starts_with(prefix.as_str()) {
                e.err("outside-domain", format!("{what}: {kind}({path:?}) — file in /dev/shm without the domain's prefix {prefix:?}"));
            }
            continue;
        }
        let norm = normalize(&path);
        if !(norm == *root || norm.starts_with(&format!("{root}/")) || root.starts_with(&format!("{norm}/"))) {
            e.err("outside-domain", format!("{what}: {kind}({path:?}) (normalised {norm:?}) — outside the domain's root {root:?}"));
            continue;
        }
        if norm != path.trim_end_matches('/') && path.contains("..") {
            e.err("outside-domain", format!("{what}: {kind}({path:?}) contains a traversal component"));
        }
        // files (not directories) created under the root carry the prefix
        if kind == "open-create" || kind == "unlink" || kind == "remove" {
            let last = norm.rsplit('/').next().unwrap_or("");
            if !last.starts_with(prefix.as_str()) {
                e.err("outside-domain", format!("{what}: {kind}({path:?}) — the file name does not carry the domain's prefix {prefix:?}"));
            }
            if other.1 != *prefix && other.1.len() > prefix.len() && last.starts_with(other.1.as_str()) && (kind == "unlink" || kind == "remove") {
                e.err("foreign-object", format!("{what}: {kind}({path:?}) — this file belongs to the domain with prefix {:?}", other.1));
            }
        }
        // the other domain's private root must never be entered
        if other.0 != *root && !root.starts_with(&format!("{}/", other.0)) && (norm == other.0 || norm.starts_with(&format!("{}/", other.0))) {
            e.err("foreign-object", format!("{what}: {kind}({path:?}) lies under the other domain's root {:?}", other.0));
        }
    }
}

fn normalize(p: &str) -> String {
    let mut out: Vec<&str> = Vec::new();
    for c in p.split('/') {
        match c {
            "" | "." => {}
            ".." => {
                out.pop();
            }
            x => out.push(x),
        }
    }
    format!("/{}", out.join("/"))
}

fn scenario<S: Service>(plan: &Plan, errs: &Arc<Mutex<Errs>>) {
    let pid = unsafe { libc::getpid() };
    let base = root_of(pid);
    let _ = std::fs::remove_dir_all(&base);
    let (ra, pa, rb, pb) = pair(plan.p("pair"), &base, pid);
    // pre-clean shm objects of an earlier process with this pid
    if let Ok(rd) = std::fs::read_dir("/dev/shm") {
        for e in rd.flatten() {
            let n = e.file_name().to_string_lossy().to_string();
            if n.starts_with(&format!("vsq{pid}_")) || n.starts_with(&format!("vsqa{pid}_")) || n.starts_with(&format!("vsqb{pid}_")) {
                let _ = std::fs::remove_file(e.path());
            }
        }
    }
    let mut doms: Vec<Dom<S>> = vec![(ra, pa), (rb, pb)]
        .into_iter()
        .enumerate()
        .map(|(i, (r, p))| Dom { tag: 0xD0 + i as u64, config: mk_config(&r, &p), root: r, prefix: p, nodes: vec![None, None], ps: BTreeMap::new(), ev: BTreeMap::new(), pubs: BTreeMap::new(), subs: BTreeMap::new(), nots: BTreeMap::new(), lsts: BTreeMap::new(), pending_events: BTreeMap::new(), sent: BTreeMap::new() })
        .collect();
    let ids: Vec<(String, String)> = doms.iter().map(|d| (d.root.clone(), d.prefix.clone())).collect();
    let same_domain = ids[0] == ids[1];
    pathlog::enable(true);
    for (opi, o) in plan.threads[0].iter().enumerate() {
        let d = o.arg(0) as usize % 2;
        let what = format!("op #{opi} {}{:?} by domain {d} (root {:?}, prefix {:?}; other domain: root {:?}, prefix {:?})", o.c, o.a, ids[d].0, ids[d].1, ids[1 - d].0, ids[1 - d].1);
        crate::kit::crashnote::set(&what);
        let k = o.arg(1) as usize;
        let mut e = errs.lock().unwrap();
        let _ = pathlog::drain();
        // node ids are (pid, creation time, per-domain counter): under a clock that stands still two domains in
        // one process would hand out identical ids, which no real system can; let time pass between calls
        iceoryx2_pal_concurrency_sync::sim::advance_ns(1_000_003);
        match o.c.as_str() {
            "node" => {
                let slot = k % 2;
                if doms[d].nodes[slot].is_none() {
                    let name = NODE_NAMES[o.arg(2) as usize % NODE_NAMES.len()];
                    match NodeName::new(name) {
                        Err(_) => e.probe("node_name_refused"),
                        Ok(nn) => {
                            if nn.as_str() != name {
                                e.err("round-trip", format!("{what}: node name {name:?} was accepted but reads back {:?}", nn.as_str()));
                            }
                            match NodeBuilder::new().name(&nn).config(&doms[d].config).create::<S>() {
                                Ok(n) => {
                                    if n.name().as_str() != name {
                                        e.err("round-trip", format!("{what}: node created with name {name:?} reports {:?}", n.name().as_str()));
                                    }
                                    doms[d].nodes[slot] = Some((n, name.to_string()));
                                    e.probe("node_created");
                                }
                                Err(err) => e.err("interference", format!("{what}: node creation failed with {err:?}")),
                            }
                        }
                    }
                }
            }
            "node_drop" => {
                // services and ports of a domain always live on the node in slot 0 (they keep that node's resources
                // alive); slot 0 is dropped only after them (orderly shutdown in any order is C17's business)
                let slot = k % 2;
                if slot == 0 {
                    let dm = &mut doms[d];
                    dm.pubs.clear();
                    dm.subs.clear();
                    dm.nots.clear();
                    dm.lsts.clear();
                    dm.ps.clear();
                    dm.ev.clear();
                    dm.pending_events.clear();
                    dm.sent.clear();
                }
                doms[d].nodes[slot] = None;
            }
            "ps" | "ev" => {
                let si = k % SVC_NAMES.len();
                let name = SVC_NAMES[si];
                let Some(node) = doms[d].nodes[0].as_ref().map(|n| &n.0) else { continue };
                match ServiceName::new(name) {
                    Err(_) => e.probe("service_name_refused"),
                    Ok(sn) => {
                        if sn.as_str() != name {
                            e.err("round-trip", format!("{what}: service name {name:?} was accepted but reads back {:?}", sn.as_str()));
                        }
                        if o.c == "ps" && !doms[d].ps.contains_key(&si) && !doms[d].ev.contains_key(&si) {
                            match node.service_builder(&sn).publish_subscribe::<DomPay>().max_publishers(2).max_subscribers(2).open_or_create() {
                                Ok(s) => {
                                    if s.name().as_str() != name {
                                        e.err("round-trip", format!("{what}: the service reports the name {:?}", s.name().as_str()));
                                    }
                                    // a fresh service of this domain has no ports of the other domain
                                    let (np, ns) = (s.dynamic_config().number_of_publishers(), s.dynamic_config().number_of_subscribers());
                                    let (mp, ms) = (doms[d].pubs.contains_key(&si) as usize, doms[d].subs.contains_key(&si) as usize);
                                    if !same_domain && (np != mp || ns != ms) {
                                        e.err("interference", format!("{what}: the service was opened with {np} publishers / {ns} subscribers although this domain has {mp} / {ms} — it is shared with the other domain"));
                                    }
                                    doms[d].ps.insert(si, s);
                                    e.probe("service_created");
                                }
                                Err(err) => e.err("interference", format!("{what}: open_or_create of a publish-subscribe service failed with {err:?} although this domain holds no service of that name")),
                            }
                        } else if o.c == "ev" && !doms[d].ev.contains_key(&si) && !doms[d].ps.contains_key(&si) {
                            match node.service_builder(&sn).event().open_or_create() {
                                Ok(s) => {
                                    let (nn, nl) = (s.dynamic_config().number_of_notifiers(), s.dynamic_config().number_of_listeners());
                                    if !same_domain && (nn != 0 || nl != 0) {
                                        e.err("interference", format!("{what}: the event service was opened with {nn} notifiers / {nl} listeners although this domain has none — it is shared with the other domain"));
                                    }
                                    doms[d].ev.insert(si, s);
                                    e.probe("service_created");
                                }
                                Err(err) => e.err("interference", format!("{what}: open_or_create of an event service failed with {err:?} although this domain holds no service of that name")),
                            }
                        }
                    }
                }
            }
            "svc_drop" => {
                let si = k % SVC_NAMES.len();
                let dm = &mut doms[d];
                dm.pubs.remove(&si);
                dm.subs.remove(&si);
                dm.nots.remove(&si);
                dm.lsts.remove(&si);
                dm.pending_events.remove(&si);
                dm.sent.remove(&si);
                dm.ps.remove(&si);
                dm.ev.remove(&si);
            }
            "ports" => {
                let si = k % SVC_NAMES.len();
                let dm = &mut doms[d];
                if let Some(s) = dm.ps.get(&si) {
                    if !dm.subs.contains_key(&si) {
                        match s.subscriber_builder().create() {
                            Ok(x) => {
                                dm.subs.insert(si, x);
                            }
                            Err(err) => e.err("interference", format!("{what}: subscriber creation failed with {err:?}")),
                        }
                    }
                    if !dm.pubs.contains_key(&si) {
                        match s.publisher_builder().create() {
                            Ok(x) => {
                                dm.pubs.insert(si, x);
                            }
                            Err(err) => e.err("interference", format!("{what}: publisher creation failed with {err:?}")),
                        }
                    }
                }
                if let Some(s) = dm.ev.get(&si) {
                    if !dm.lsts.contains_key(&si) {
                        match s.listener_builder().create() {
                            Ok(x) => {
                                dm.lsts.insert(si, x);
                            }
                            Err(err) => e.err("interference", format!("{what}: listener creation failed with {err:?}")),
                        }
                    }
                    if !dm.nots.contains_key(&si) {
                        match s.notifier_builder().create() {
                            Ok(x) => {
                                dm.nots.insert(si, x);
                            }
                            Err(err) => e.err("interference", format!("{what}: notifier creation failed with {err:?}")),
                        }
                    }
                }
            }
            "send" => {
                let si = k % SVC_NAMES.len();
                let dm = &mut doms[d];
                if let Some(p) = dm.pubs.get(&si) {
                    let seq = dm.sent.entry(si).or_default();
                    *seq += 1;
                    let expect = dm.subs.contains_key(&si) as usize;
                    match p.send_copy([dm.tag, *seq]) {
                        Ok(n) => {
                            e.probe("sent");
                            if n != expect && !same_domain {
                                e.err("interference", format!("{what}: the sample was delivered to {n} subscribers, this domain has {expect} on that service"));
                            }
                        }
                        Err(err) => e.err("interference", format!("{what}: send failed with {err:?}")),
                    }
                }
                if let Some(n) = dm.nots.get(&si) {
                    let expect = dm.lsts.contains_key(&si) as usize;
                    match n.notify_with_custom_event_id(EventId::new(dm.tag as usize)) {
                        Ok(c) => {
                            if c != expect && !same_domain {
                                e.err("interference", format!("{what}: the notification reached {c} listeners, this domain has {expect} on that service"));
                            }
                            if expect > 0 {
                                *dm.pending_events.entry(si).or_default() += 1;
                            }
                        }
                        Err(err) => e.err("interference", format!("{what}: notify failed with {err:?}")),
                    }
                }
            }
            "recv" => {
                let si = k % SVC_NAMES.len();
                let dm = &mut doms[d];
                if let Some(s) = dm.subs.get(&si) {
                    loop {
                        match s.receive() {
                            Ok(Some(x)) => {
                                e.probe("received");
                                if x.payload()[0] != dm.tag && !same_domain {
                                    e.err("data-crossed", format!("{what}: the subscriber received a sample {:x?} sent by the other domain", x.payload()));
                                }
                            }
                            Ok(None) => break,
                            Err(err) => {
                                e.err("interference", format!("{what}: receive failed with {err:?}"));
                                break;
                            }
                        }
                    }
                }
                if let Some(l) = dm.lsts.get(&si) {
                    let tag = dm.tag as usize;
                    let mut foreign = None;
                    let mut got = 0;
                    let r = l.try_wait(|id| {
                        got += 1;
                        if id.id.as_value() != tag {
                            foreign = Some(id.id.as_value());
                        }
                    });
                    if let Err(err) = r {
                        e.err("interference", format!("{what}: try_wait_all failed with {err:?}"));
                    }
                    if let Some(f) = foreign {
                        if !same_domain {
                            e.err("data-crossed", format!("{what}: the listener received event id {f:#x} raised by the other domain"));
                        }
                    }
                    if got == 0 && dm.pending_events.get(&si).copied().unwrap_or(0) > 0 {
                        e.err("interference", format!("{what}: notifications of this domain are pending but the listener received nothing"));
                    }
                    dm.pending_events.remove(&si);
                }
            }
            "list_nodes" => {
                let mine: BTreeSet<u128> = doms[d].nodes.iter().flatten().map(|n| n.0.id().value()).collect();
                let theirs: BTreeSet<u128> = doms[1 - d].nodes.iter().flatten().map(|n| n.0.id().value()).collect();
                let names: BTreeMap<u128, String> = doms[d].nodes.iter().flatten().map(|n| (n.0.id().value(), n.1.clone())).collect();
                let mut seen = BTreeSet::new();
                let r = Node::<S>::list(&doms[d].config, |st| {
                    match &st {
                        NodeState::Alive(v) => {
                            let id = v.id().value();
                            seen.insert(id);
                            if let (Some(det), Some(n)) = (v.details(), names.get(&id)) {
                                if det.name().as_str() != n {
                                    e.err("round-trip", format!("{what}: node {id:x} created with name {n:?} is listed as {:?}", det.name().as_str()));
                                }
                            }
                        }
                        NodeState::Dead(v) => {
                            seen.insert(v.id().value());
                            e.err("interference", format!("{what}: node {:x} is listed as dead although nothing died", v.id().value()));
                        }
                        NodeState::Inaccessible(id) | NodeState::Undefined(id) => {
                            seen.insert(id.value());
                            e.err("interference", format!("{what}: node {:x} is listed as inaccessible/undefined", id.value()));
                        }
                    }
                    CallbackProgression::Continue
                });
                e.probe("nodes_listed");
                if let Err(err) = r {
                    e.err("interference", format!("{what}: Node::list failed with {err:?}"));
                } else if !same_domain {
                    for id in seen.iter() {
                        if theirs.contains(id) && !mine.contains(id) {
                            e.err("foreign-listed", format!("{what}: Node::list shows node {id:x} of the other domain"));
                        } else if !mine.contains(id) {
                            e.err("foreign-listed", format!("{what}: Node::list shows node {id:x} which this domain never created"));
                        }
                    }
                    for id in mine.iter() {
                        if !seen.contains(id) {
                            e.err("interference", format!("{what}: Node::list does not show this domain's own node {id:x}"));
                        }
                    }
                }
            }
            "list_services" => {
                let mine: BTreeSet<String> = doms[d].ps.keys().chain(doms[d].ev.keys()).map(|i| SVC_NAMES[*i].to_string()).collect();
                let mut seen = Vec::new();
                let r = S::list(&doms[d].config, |det| {
                    seen.push(det.static_details.name().as_str().to_string());
                    CallbackProgression::Continue
                });
                e.probe("services_listed");
                if let Err(err) = r {
                    e.err("interference", format!("{what}: Service::list failed with {err:?}"));
                } else if !same_domain {
                    let seen_set: BTreeSet<String> = seen.iter().cloned().collect();
                    if seen_set.len() != seen.len() || seen_set != mine {
                        let other: BTreeSet<String> = doms[1 - d].ps.keys().chain(doms[1 - d].ev.keys()).map(|i| SVC_NAMES[*i].to_string()).collect();
                        e.err("foreign-listed", format!("{what}: Service::list shows {seen:?}; this domain holds exactly {mine:?} (the other domain holds {other:?})"));
                    }
                }
            }
            "exists" => {
                let si = k % SVC_NAMES.len();
                if let Ok(sn) = ServiceName::new(SVC_NAMES[si]) {
                    for (pattern, held) in [(MessagingPattern::PublishSubscribe, doms[d].ps.contains_key(&si)), (MessagingPattern::Event, doms[d].ev.contains_key(&si))] {
                        match S::does_exist(&sn, &doms[d].config, pattern) {
                            Ok(b) => {
                                if b != held && !same_domain {
                                    e.err("foreign-listed", format!("{what}: does_exist({:?}, {pattern:?}) = {b} but this domain {} such a service", SVC_NAMES[si], if held { "holds" } else { "does not hold" }));
                                }
                            }
                            Err(err) => e.err("interference", format!("{what}: does_exist failed with {err:?}")),
                        }
                    }
                }
            }
            "cleanup" => {
                let Some(node) = doms[d].nodes.iter().flatten().next().map(|n| &n.0) else { continue };
                let r = node.try_cleanup_dead_nodes();
                e.probe("cleanup_called");
                if r.cleanups > 0 || r.failed_cleanups > 0 {
                    e.err("interference", format!("{what}: cleanup_dead_nodes reports {r:?} although no node of any domain died"));
                }
            }
            _ => {}
        }
        if !same_domain {
            judge_paths(&ids[d], &ids[1 - d], &what, &mut e);
        }
        if !e.errs.is_empty() {
            break;
        }
    }
    crate::kit::crashnote::set("tear-down");
    // orderly tear-down of both domains, domain by domain; the other one must be unaffected (its lists stay exact)
    for d in 0..2 {
        let mut e = errs.lock().unwrap();
        let _ = pathlog::drain();
        {
            let dm = &mut doms[d];
            dm.pubs.clear();
            dm.subs.clear();
            dm.nots.clear();
            dm.lsts.clear();
            dm.ps.clear();
            dm.ev.clear();
            dm.nodes.clear();
        }
        if !same_domain && e.errs.is_empty() {
            judge_paths(&ids[d], &ids[1 - d], &format!("tear-down of domain {d} (root {:?}, prefix {:?})", ids[d].0, ids[d].1), &mut e);
        }
    }
    pathlog::enable(false);
}

pub struct DomainHarness {
    pub ipc: bool,
}
impl Harness for DomainHarness {
    fn name(&self) -> &'static str {
        if self.ipc { "c19.domains_ipc" } else { "c19.domains_local" }
    }
    fn property(&self) -> &'static str {
        "C19"
    }
    fn modes(&self) -> Vec<(&'static str, u32, bool)> {
        vec![("seq", 1, true)]
    }
    fn quick_runs(&self) -> u64 {
        if self.ipc { 2000 } else { 1500 }
    }
    fn isolate(&self) -> bool {
        true
    }
    fn components(&self) -> Value {
        json!({"real": ["iceoryx2 nodes, publish-subscribe and event services, ports, Node::list, Service::list, does_exist, cleanup_dead_nodes under two domain configurations", if self.ipc { "ipc concepts: files under the configured roots, POSIX shared memory; every path argument of open/shm_open/unlink/shm_unlink/remove/mkdir/rmdir/chmod is recorded at the PAL seam" } else { "local (process-local) concepts" }], "stub": ["clock", "pid", "choice of which domain acts next"]})
    }
    fn generate(&self, r: &mut Rng, mode: &str) -> (Plan, CfgSer) {
        let mut params = BTreeMap::new();
        params.insert("pair".into(), r.range(0, 7));
        let mut ops = Vec::new();
        // both domains start with a node and mostly use the same few service names
        let hot = [[0i64, 1, 8][r.below(3) as usize], r.range(0, SVC_NAMES.len() as i64 - 1)];
        for d in 0..2 {
            ops.push(Op::new("node", &[d, 0, r.range(0, NODE_NAMES.len() as i64 - 1)]));
        }
        for _ in 0..r.range(10, 50) {
            let d = r.range(0, 1);
            let si = if r.chance(0.8) { hot[r.below(2) as usize] } else { r.range(0, SVC_NAMES.len() as i64 - 1) };
            let k = r.below(100);
            let op = if k < 5 {
                Op::new("node", &[d, r.range(0, 1), r.range(0, NODE_NAMES.len() as i64 - 1)])
            } else if k < 8 {
                Op::new("node_drop", &[d, r.range(0, 1)])
            } else if k < 18 {
                Op::new("ps", &[d, si])
            } else if k < 26 {
                Op::new("ev", &[d, si])
            } else if k < 30 {
                Op::new("svc_drop", &[d, si])
            } else if k < 46 {
                Op::new("ports", &[d, si])
            } else if k < 62 {
                Op::new("send", &[d, si])
            } else if k < 74 {
                Op::new("recv", &[d, si])
            } else if k < 82 {
                Op::new("list_nodes", &[d])
            } else if k < 90 {
                Op::new("list_services", &[d])
            } else if k < 96 {
                Op::new("exists", &[d, si])
            } else {
                Op::new("cleanup", &[d])
            };
            let follow = (op.c == "ps" || op.c == "ev") && r.chance(0.6);
            ops.push(op);
            if follow {
                ops.push(Op::new("ports", &[d, si]));
                for _ in 0..r.range(0, 2) {
                    ops.push(Op::new("send", &[d, si]));
                }
                if r.chance(0.5) {
                    ops.push(Op::new("recv", &[r.range(0, 1), si]));
                }
            }
        }
        let plan = Plan { harness: self.name().into(), mode: mode.into(), params, threads: vec![ops] };
        let mut cfg = CfgSer::base();
        cfg.step_cap = 6_000_000;
        (plan, cfg)
    }
    fn execute(&self, plan: &Plan, cfg: &CfgSer, dec: Decisions) -> RunResult {
        let errs = Arc::new(Mutex::new(Errs::default()));
        let e2 = errs.clone();
        let plan2 = plan.clone();
        let ipc = self.ipc;
        crate::kit::crashnote::install_segv_reporter();
        let report = sim_run(cfg.to_cfg(), dec, move || {
            if ipc {
                scenario::<ipc::Service>(&plan2, &e2)
            } else {
                scenario::<local::Service>(&plan2, &e2)
            }
        });
        pathlog::enable(false);
        let pid = unsafe { libc::getpid() };
        let base = root_of(pid);
        #[allow(unused_mut)]
        let mut g = take_after_run(&errs);
        // leftovers: files under the roots (directories are documented to persist) and shm objects
        let mut left = Vec::new();
        fn walk(dir: &std::path::Path, out: &mut Vec<String>) {
            if let Ok(rd) = std::fs::read_dir(dir) {
                for e in rd.flatten() {
                    let p = e.path();
                    if p.is_dir() {
                        walk(&p, out);
                    } else {
                        out.push(p.to_string_lossy().to_string());
                    }
                }
            }
        }
        walk(std::path::Path::new(&base), &mut left);
        if let Ok(rd) = std::fs::read_dir("/dev/shm") {
            for e in rd.flatten() {
                let n = e.file_name().to_string_lossy().to_string();
                if n.starts_with(&format!("vsq{pid}_")) || n.starts_with(&format!("vsqa{pid}_")) || n.starts_with(&format!("vsqb{pid}_")) {
                    if !n.contains("global_mgmt") {
                        left.push(format!("/dev/shm/{n}"));
                    }
                    let _ = std::fs::remove_file(e.path());
                }
            }
        }
        let _ = std::fs::remove_dir_all(&base);
        if g.errs.is_empty() && report.outcome == Outcome::Ok && !left.is_empty() {
            g.err("leftover", format!("after both domains dropped everything these objects remain: {left:?}"));
        }
        let mut violation = g.errs.first().map(|(c, m)| Violation { class: c.clone(), msg: m.clone() });
        let mut inconclusive = false;
        if violation.is_none() {
            match &report.outcome {
                Outcome::Ok => {}
                Outcome::StepCap => inconclusive = true,
                Outcome::Deadlock { blocked } => violation = viol("deadlock", format!("threads {blocked:?} blocked for ever")),
                Outcome::Panic { thread, msg } => violation = viol("panic", format!("thread {thread} panicked: {}", &msg[..msg.len().min(400)])),
            }
        }
        let mut report = report;
        report.chooses = plan.ops() as u64;
        report.sched_sig = hash_str(&serde_json::to_string(plan).unwrap());
        let probes = g.probes.iter().map(|(k, v)| (*k, *v)).collect();
        RunResult { report, violation, beyond: None, probes, inconclusive }
    }
}

// ---------------------------------------------------------------------------------------
// semantic string edit histories

use iceoryx2_bb_container::semantic_string::SemanticString;
use iceoryx2_bb_system_types::file_path::FilePath;

fn edit_history<T: SemanticString<N> + Clone + core::fmt::Debug + PartialEq, const N: usize>(tyname: &str, plan: &Plan, e: &mut Errs) {
    let seeds: [&[u8]; 8] = [b"a", b"..secret", b"file.txt", b"/tmp/root/file", b"dir/sub/name", b"./x", b"a..b", b"x/"];
    let init = seeds[plan.p("seed_value") as usize % seeds.len()];
    let mut v = match T::new(init) {
        Ok(v) => v,
        Err(_) => {
            e.probe("initial_value_refused");
            return;
        }
    };
    for (opi, o) in plan.threads[0].iter().enumerate() {
        let before = v.as_bytes().to_vec();
        let i = o.arg(0) as usize;
        let b = o.arg(1) as u8;
        let bytes: Vec<u8> = o.a.iter().skip(1).map(|x| *x as u8).collect();
        let what = format!("{tyname}: op #{opi} {}{:?} on {:?}", o.c, o.a, String::from_utf8_lossy(&before));
        let r: Result<(), String> = match o.c.as_str() {
            "push" => v.push(b).map_err(|x| format!("{x:?}")),
            "push_bytes" => v.push_bytes(&bytes).map_err(|x| format!("{x:?}")),
            "insert" => {
                if i <= before.len() { v.insert(i, b).map_err(|x| format!("{x:?}")) } else { Ok(()) }
            }
            "insert_bytes" => {
                if i <= before.len() { v.insert_bytes(i, &bytes).map_err(|x| format!("{x:?}")) } else { Ok(()) }
            }
            "pop" => v.pop().map(|_| ()).map_err(|x| format!("{x:?}")),
            "remove" => {
                if i < before.len() { v.remove(i).map(|_| ()).map_err(|x| format!("{x:?}")) } else { Ok(()) }
            }
            "remove_range" => {
                if i + 2 <= before.len() { v.remove_range(i, 2).map_err(|x| format!("{x:?}")) } else { Ok(()) }
            }
            "truncate" => v.truncate(i.min(before.len())).map_err(|x| format!("{x:?}")),
            "strip_prefix" => v.strip_prefix(&bytes).map(|_| ()).map_err(|x| format!("{x:?}")),
            "strip_suffix" => v.strip_suffix(&bytes).map(|_| ()).map_err(|x| format!("{x:?}")),
            "retain" => v.retain(|c| c != b).map_err(|x| format!("{x:?}")),
            _ => Ok(()),
        };
        let after = v.as_bytes().to_vec();
        match r {
            Err(_) => {
                e.probe("edit_refused");
                if after != before {
                    e.err("refused-edit-changed-value", format!("{what}: the edit was refused but the value changed to {:?}", String::from_utf8_lossy(&after)));
                }
            }
            Ok(()) => {
                e.probe("edit_accepted");
                match T::new(&after) {
                    Ok(again) => {
                        if again.as_bytes() != &after[..] {
                            e.err("round-trip", format!("{what}: the result {:?} does not round-trip through the constructor ({:?})", String::from_utf8_lossy(&after), String::from_utf8_lossy(again.as_bytes())));
                        }
                    }
                    Err(err) => e.err("invalid-value-reachable", format!("{what}: the edit succeeded and left {:?}, which the constructor of {tyname} refuses ({err:?}) — an accepted value turned into one that violates the type's rule", String::from_utf8_lossy(&after))),
                }
            }
        }
        if !e.errs.is_empty() {
            return;
        }
    }
}

pub struct SemanticEditHarness;
impl Harness for SemanticEditHarness {
    fn name(&self) -> &'static str {
        "c19.semantic_string_edits"
    }
    fn property(&self) -> &'static str {
        "C19"
    }
    fn modes(&self) -> Vec<(&'static str, u32, bool)> {
        vec![("seq", 1, true)]
    }
    fn quick_runs(&self) -> u64 {
        6000
    }
    fn isolate(&self) -> bool {
        true
    }
    fn components(&self) -> Value {
        json!({"real": ["FileName, Path, FilePath (semantic_string! types) and their mutating operations"], "stub": []})
    }
    fn generate(&self, r: &mut Rng, mode: &str) -> (Plan, CfgSer) {
        let mut params = BTreeMap::new();
        params.insert("ty".into(), r.range(0, 2));
        params.insert("seed_value".into(), r.range(0, 7));
        let alphabet: &[u8] = b"ab./.\\ \0~-_\xc3/..";
        let mut ops = Vec::new();
        for _ in 0..r.range(3, 30) {
            let c = ["push", "push_bytes", "insert", "insert_bytes", "pop", "remove", "remove_range", "truncate", "strip_prefix", "strip_suffix", "retain"][r.below(11) as usize];
            let mut a = vec![r.range(0, 16)];
            for _ in 0..r.range(1, 3) {
                a.push(alphabet[r.below(alphabet.len() as u64) as usize] as i64);
            }
            ops.push(Op::new(c, &a));
        }
        let plan = Plan { harness: self.name().into(), mode: mode.into(), params, threads: vec![ops] };
        (plan, CfgSer::base())
    }
    fn execute(&self, plan: &Plan, cfg: &CfgSer, dec: Decisions) -> RunResult {
        let errs = Arc::new(Mutex::new(Errs::default()));
        let e2 = errs.clone();
        let plan2 = plan.clone();
        let report = sim_run(cfg.to_cfg(), dec, move || {
            let mut e = e2.lock().unwrap();
            match plan2.p("ty") {
                0 => edit_history::<FileName, { FileName::max_len() }>("FileName", &plan2, &mut e),
                1 => edit_history::<Path, { Path::max_len() }>("Path", &plan2, &mut e),
                _ => edit_history::<FilePath, { FilePath::max_len() }>("FilePath", &plan2, &mut e),
            }
        });
        #[allow(unused_mut)]
        let mut g = take_after_run(&errs);
        let mut violation = g.errs.first().map(|(c, m)| Violation { class: c.clone(), msg: m.clone() });
        if violation.is_none() {
            if let Outcome::Panic { thread, msg } = &report.outcome {
                violation = viol("panic", format!("thread {thread} panicked: {}", &msg[..msg.len().min(400)]));
            }
        }
        let mut report = report;
        report.chooses = plan.ops() as u64;
        report.sched_sig = hash_str(&serde_json::to_string(plan).unwrap());
        let probes = g.probes.iter().map(|(k, v)| (*k, *v)).collect();
        RunResult { report, violation, beyond: None, probes, inconclusive: false }
    }
}

// ---------------------------------------------------------------------------------------
// the named-concept layer (iceoryx2-cal/src/named_concept.rs) under two configurations

use iceoryx2_cal::named_concept::{NamedConceptBuilder, NamedConceptConfiguration, NamedConceptMgmt};
use iceoryx2_cal::static_storage::{StaticStorage, StaticStorageBuilder};

fn concept_scenario<St: StaticStorage>(kind: &str, plan: &Plan, e: &mut Errs)
where
    St::Configuration: NamedConceptConfiguration,
{
    let pid = unsafe { libc::getpid() };
    let base = root_of(pid);
    let _ = std::fs::remove_dir_all(&base);
    let (ra, pa, rb, pb) = pair(plan.p("pair"), &base, pid);
    let suffix = FileName::new(b".vsq").unwrap();
    let ids = [(ra, pa), (rb, pb)];
    let cfgs: Vec<St::Configuration> = ids
        .iter()
        .map(|(r, p)| {
            let _ = std::fs::create_dir_all(r);
            <St::Configuration as Default>::default().prefix(&FileName::new(p.as_bytes()).unwrap()).suffix(&suffix).path_hint(&Path::new(r.as_bytes()).unwrap())
        })
        .collect();
    let names: Vec<FileName> = ["alpha", "beta", "a_", "b_x", "sub"].iter().map(|n| FileName::new(n.as_bytes()).unwrap()).collect();
    let mut held: Vec<BTreeMap<usize, St>> = vec![BTreeMap::new(), BTreeMap::new()];
    pathlog::enable(true);
    for (opi, o) in plan.threads[0].iter().enumerate() {
        let d = o.arg(0) as usize % 2;
        let ni = o.arg(1) as usize % names.len();
        let what = format!("{kind} storage: op #{opi} {}{:?} by domain {d} (path {:?}, prefix {:?}; other domain: path {:?}, prefix {:?})", o.c, o.a, ids[d].0, ids[d].1, ids[1 - d].0, ids[1 - d].1);
        let _ = pathlog::drain();
        match o.c.as_str() {
            "create" => {
                if !held[d].contains_key(&ni) {
                    match St::Builder::new(&names[ni]).config(&cfgs[d]).has_ownership(true).create(&[d as u8, ni as u8]) {
                        Ok(s) => {
                            held[d].insert(ni, s);
                            e.probe("concept_created");
                        }
                        Err(err) => e.err("interference", format!("{what}: creation failed with {err:?} although this domain has no object of that name")),
                    }
                }
            }
            "drop" => {
                held[d].remove(&ni);
            }
            "exists" => match St::does_exist_cfg(&names[ni], &cfgs[d]) {
                Ok(b) => {
                    if b != held[d].contains_key(&ni) {
                        e.err("foreign-listed", format!("{what}: does_exist = {b}, but this domain {} an object {:?}", if b { "does not hold" } else { "holds" }, names[ni].to_string()));
                    }
                }
                Err(err) => e.err("interference", format!("{what}: does_exist failed with {err:?}")),
            },
            "list" => match St::list_cfg(&cfgs[d]) {
                Ok(v) => {
                    e.probe("concepts_listed");
                    let mut seen: Vec<String> = v.iter().map(|n| n.to_string()).collect();
                    seen.sort();
                    let mine: Vec<String> = {
                        let mut m: Vec<String> = held[d].keys().map(|i| names[*i].to_string()).collect();
                        m.sort();
                        m
                    };
                    if seen != mine {
                        let other: Vec<String> = held[1 - d].keys().map(|i| names[*i].to_string()).collect();
                        e.err("foreign-listed", format!("{what}: list shows {seen:?}; this domain holds exactly {mine:?} (the other domain holds {other:?})"));
                    }
                }
                Err(err) => e.err("interference", format!("{what}: list failed with {err:?}")),
            },
            "open" => {
                // content identifies the creator
                if let Ok(s) = St::Builder::new(&names[ni]).config(&cfgs[d]).has_ownership(false).open(core::time::Duration::ZERO) {
                    let mut buf = vec![0u8; s.len() as usize];
                    use iceoryx2_cal::static_storage::StaticStorageView;
                    if s.view().read(&mut buf).is_ok() && buf.first().copied() != Some(d as u8) {
                        e.err("data-crossed", format!("{what}: opened an object whose content {buf:?} was written by the other domain"));
                    }
                    if !held[d].contains_key(&ni) {
                        e.err("foreign-listed", format!("{what}: an object this domain never created could be opened"));
                    }
                }
            }
            _ => {}
        }
        if kind == "file" {
            judge_paths(&ids[d], &ids[1 - d], &what, e);
        }
        if !e.errs.is_empty() {
            break;
        }
    }
    pathlog::enable(false);
    held.clear();
    let _ = std::fs::remove_dir_all(&base);
}

pub struct ConceptHarness;
impl Harness for ConceptHarness {
    fn name(&self) -> &'static str {
        "c19.named_concepts"
    }
    fn property(&self) -> &'static str {
        "C19"
    }
    fn modes(&self) -> Vec<(&'static str, u32, bool)> {
        vec![("seq", 1, true)]
    }
    fn quick_runs(&self) -> u64 {
        3000
    }
    fn isolate(&self) -> bool {
        true
    }
    fn components(&self) -> Value {
        json!({"real": ["iceoryx2-cal named concepts: static_storage::file and static_storage::process_local with NamedConceptConfiguration (prefix, suffix, path hint), list_cfg / does_exist_cfg / create / open"], "stub": ["choice of which domain acts next"]})
    }
    fn generate(&self, r: &mut Rng, mode: &str) -> (Plan, CfgSer) {
        let mut params = BTreeMap::new();
        // At this layer a name is <prefix><name><suffix>: with prefixes that are prefixes of one another the
        // split is ambiguous by construction (the layers above only store fixed-length hashes and numeric ids as
        // names and verify the hash after reading, which is what resolves it — c19.domains_* covers that); here
        // only pairs that differ in the path, or in unrelated prefixes, are in scope.
        params.insert("pair".into(), [0, 3, 4, 5, 7][r.below(5) as usize]);
        params.insert("backend".into(), r.range(0, 1));
        let mut ops = Vec::new();
        for _ in 0..r.range(6, 40) {
            let c = ["create", "create", "create", "drop", "exists", "list", "list", "open"][r.below(8) as usize];
            ops.push(Op::new(c, &[r.range(0, 1), r.range(0, 4)]));
        }
        let plan = Plan { harness: self.name().into(), mode: mode.into(), params, threads: vec![ops] };
        (plan, CfgSer::base())
    }
    fn execute(&self, plan: &Plan, cfg: &CfgSer, dec: Decisions) -> RunResult {
        let errs = Arc::new(Mutex::new(Errs::default()));
        let e2 = errs.clone();
        let plan2 = plan.clone();
        let report = sim_run(cfg.to_cfg(), dec, move || {
            let mut e = e2.lock().unwrap();
            if plan2.p("backend") == 0 {
                concept_scenario::<iceoryx2_cal::static_storage::process_local::Storage>("process-local", &plan2, &mut e)
            } else {
                concept_scenario::<iceoryx2_cal::static_storage::file::Storage>("file", &plan2, &mut e)
            }
        });
        pathlog::enable(false);
        #[allow(unused_mut)]
        let mut g = take_after_run(&errs);
        let mut violation = g.errs.first().map(|(c, m)| Violation { class: c.clone(), msg: m.clone() });
        if violation.is_none() {
            if let Outcome::Panic { thread, msg } = &report.outcome {
                violation = viol("panic", format!("thread {thread} panicked: {}", &msg[..msg.len().min(400)]));
            }
        }
        let mut report = report;
        report.chooses = plan.ops() as u64;
        report.sched_sig = hash_str(&serde_json::to_string(plan).unwrap());
        let probes = g.probes.iter().map(|(k, v)| (*k, *v)).collect();
        RunResult { report, violation, beyond: None, probes, inconclusive: false }
    }
}
