// C05 — events: no lost wake-up, no phantom event (DESIGN.md §6.5), thread-level harness.
// Real event::common::{Handle, Waiter} hand-shake, real bit sets, process-local storage; the
// trigger is a model counting semaphore whose wait blocks in the simulator.
use crate::kit::*;
use core::mem::MaybeUninit;
use core::ptr::NonNull;
use core::time::Duration;
use iceoryx2_bb_concurrency::atomic::{AtomicU64, Ordering};
use iceoryx2_bb_container::semantic_string::SemanticString;
use iceoryx2_bb_derive_macros::ZeroCopySend;
use iceoryx2_bb_elementary_traits::testing::abandonable::Abandonable;
use iceoryx2_bb_elementary_traits::zero_copy_send::ZeroCopySend;
use iceoryx2_bb_lock_free::mpmc::bit_set::RelocatableBitSet;
use iceoryx2_bb_lock_free::mpmc::counting_bit_set::RelocatableCountingBitSet;
use iceoryx2_bb_system_types::file_name::FileName;
use iceoryx2_bb_system_types::path::Path;
use iceoryx2_cal::dynamic_storage::{self, DynamicStorage};
use iceoryx2_cal::event::common::EventImpl;
use iceoryx2_cal::event::event_state::{EventActivation, EventState};
use iceoryx2_cal::event::trigger::{Configuration, HandlerInterface, State, WaiterInterface};
use iceoryx2_cal::event::*;
use iceoryx2_cal::named_concept::{NamedConceptBuilder, NamedConceptPathHintRemoveError, NamedConceptRemoveError};
use iceoryx2_pal_concurrency_sync::sim::{self, Decisions, Outcome, rng::Rng};
use serde_json::{Value, json};
use std::collections::BTreeMap;
use std::marker::PhantomData;
use std::sync::{Arc, Mutex};

// ---- model trigger: counting semaphore with a capacity, living in the shared management block ----
#[derive(Debug, ZeroCopySend)]
#[repr(C)]
pub struct SemMgmt {
    count: AtomicU64,
    cap: u64,
    eintr_prob_permille: u64,
}
static NEXT_CAP: std::sync::atomic::AtomicU64 = std::sync::atomic::AtomicU64::new(u64::MAX);
static NEXT_EINTR: std::sync::atomic::AtomicU64 = std::sync::atomic::AtomicU64::new(0);
pub static STAT_FULL: std::sync::atomic::AtomicU64 = std::sync::atomic::AtomicU64::new(0);
pub static STAT_EINTR: std::sync::atomic::AtomicU64 = std::sync::atomic::AtomicU64::new(0);
pub static STAT_BLOCKED: std::sync::atomic::AtomicU64 = std::sync::atomic::AtomicU64::new(0);
pub static STAT_TIMEOUT: std::sync::atomic::AtomicU64 = std::sync::atomic::AtomicU64::new(0);

#[derive(Debug)]
pub struct SemHandle<E, S> {
    mgmt: *const SemMgmt,
    _d: PhantomData<(E, S)>,
}
unsafe impl<E, S> Send for SemHandle<E, S> {}
unsafe impl<E, S> Sync for SemHandle<E, S> {}
impl<E, S> Abandonable for SemHandle<E, S> {
    unsafe fn abandon_in_place(_: NonNull<Self>) {}
}
impl<E: EventState, S: DynamicStorage<State<E, SemMgmt>>> HandlerInterface<E, SemMgmt, S> for SemHandle<E, S> {
    fn open(_: &FileName, _: &Configuration, mgmt: &SemMgmt) -> Result<Self, NotifierOpenError> {
        Ok(Self { mgmt, _d: PhantomData })
    }
    fn notify(&self) -> Result<(), NotifierNotifyError> {
        let m = unsafe { &*self.mgmt };
        let cap = m.cap;
        match m.count.fetch_update(Ordering::SeqCst, Ordering::SeqCst, |c| if c < cap { Some(c + 1) } else { None }) {
            Ok(_) => {
                if sim::active() {
                    sim::wake(&m.count as *const _ as usize, true);
                }
                Ok(())
            }
            Err(_) => {
                STAT_FULL.fetch_add(1, std::sync::atomic::Ordering::Relaxed);
                Err(NotifierNotifyError::BufferIsFull)
            }
        }
    }
}

#[derive(Debug)]
pub struct SemWaiter<E, S> {
    mgmt: *const SemMgmt,
    _d: PhantomData<(E, S)>,
}
unsafe impl<E, S> Send for SemWaiter<E, S> {}
unsafe impl<E, S> Sync for SemWaiter<E, S> {}
impl<E, S> Abandonable for SemWaiter<E, S> {
    unsafe fn abandon_in_place(_: NonNull<Self>) {}
}
impl<E, S> SemWaiter<E, S> {
    fn m(&self) -> &SemMgmt {
        unsafe { &*self.mgmt }
    }
    fn try_dec(&self) -> bool {
        self.m().count.fetch_update(Ordering::SeqCst, Ordering::SeqCst, |c| if c > 0 { Some(c - 1) } else { None }).is_ok()
    }
    fn key(&self) -> usize {
        &self.m().count as *const _ as usize
    }
    fn maybe_eintr(&self) -> bool {
        let p = self.m().eintr_prob_permille;
        if p > 0 && sim::active() && sim::choose(1, p as f64 / 1000.0) != 0 {
            STAT_EINTR.fetch_add(1, std::sync::atomic::Ordering::Relaxed);
            return true;
        }
        false
    }
}
impl<E: EventState, S: DynamicStorage<State<E, SemMgmt>>> WaiterInterface<E, SemMgmt, S> for SemWaiter<E, S> {
    const IS_FILE_DESCRIPTOR_BASED: bool = false;
    unsafe fn remove(_: &FileName, _: &Configuration) -> Result<bool, NamedConceptRemoveError> {
        Ok(true)
    }
    fn remove_path_hint(_: &Path) -> Result<(), NamedConceptPathHintRemoveError> {
        Ok(())
    }
    fn create(_: &FileName, _: &Configuration, mgmt: &mut MaybeUninit<SemMgmt>) -> Result<Self, ListenerCreateError> {
        mgmt.write(SemMgmt {
            count: AtomicU64::new(0),
            cap: NEXT_CAP.load(std::sync::atomic::Ordering::Relaxed),
            eintr_prob_permille: NEXT_EINTR.load(std::sync::atomic::Ordering::Relaxed),
        });
        Ok(Self { mgmt: mgmt.as_ptr(), _d: PhantomData })
    }
    // mirrors trigger/semaphore.rs: a successful wait is followed by emptying the buffer
    fn try_wait(&self) -> Result<(), ListenerWaitError> {
        if self.try_dec() { self.empty_buffer() } else { Ok(()) }
    }
    fn timed_wait(&self, timeout: Duration) -> Result<(), ListenerWaitError> {
        let deadline = sim::now_ns() + timeout.as_nanos() as u64;
        loop {
            if self.try_dec() {
                return self.empty_buffer();
            }
            if self.maybe_eintr() {
                return Err(ListenerWaitError::InterruptSignal);
            }
            STAT_BLOCKED.fetch_add(1, std::sync::atomic::Ordering::Relaxed);
            if !sim::block_on(self.key(), Some(deadline)) && sim::now_ns() >= deadline {
                STAT_TIMEOUT.fetch_add(1, std::sync::atomic::Ordering::Relaxed);
                return if self.try_dec() { self.empty_buffer() } else { Ok(()) };
            }
        }
    }
    fn blocking_wait(&self) -> Result<(), ListenerWaitError> {
        loop {
            if self.try_dec() {
                return self.empty_buffer();
            }
            if self.maybe_eintr() {
                return Err(ListenerWaitError::InterruptSignal);
            }
            STAT_BLOCKED.fetch_add(1, std::sync::atomic::Ordering::Relaxed);
            sim::block_on(self.key(), None);
        }
    }
    fn empty_buffer(&self) -> Result<(), ListenerWaitError> {
        while self.try_dec() {}
        Ok(())
    }
}

type Stor<E> = dynamic_storage::process_local::Storage<State<E, SemMgmt>>;
type Ev<E> = EventImpl<E, SemMgmt, Stor<E>, SemHandle<E, Stor<E>>, SemWaiter<E, Stor<E>>>;

const TERM_ID: usize = 3;

#[derive(Default)]
struct Shared {
    /// (id, invocation stamp, Some(return stamp) if Ok returned, thread)
    notifies: Vec<(usize, u64, Option<u64>, usize)>,
    /// (id, count, stamp of the report)
    reports: Vec<(usize, u64, u64)>,
    errs: Vec<(String, String)>,
    probes: BTreeMap<&'static str, u64>,
    listener_done: bool,
    term_sent: bool,
}
impl Shared {
    fn err(&mut self, c: &str, m: String) {
        if self.errs.len() < 4 {
            self.errs.push((c.into(), m));
        }
    }
    fn probe(&mut self, k: &'static str) {
        *self.probes.entry(k).or_default() += 1;
    }
    /// successful notifications that are not yet covered by a later report of their id
    fn owed(&self) -> Vec<(usize, usize)> {
        self.notifies
            .iter()
            .filter(|n| n.2.is_some())
            .filter(|n| !self.reports.iter().any(|r| r.0 == n.0 && r.2 > n.1))
            .map(|n| (n.0, n.3))
            .collect()
    }
}

fn report_cb(sh: &Arc<Mutex<Shared>>, counting: bool) -> impl FnMut(EventActivation) + '_ {
    move |a: EventActivation| {
        let st = sim::stamp();
        let mut g = sh.lock().unwrap();
        let id = a.id.as_value();
        let cnt = if counting { a.count } else { 1 };
        let invoked_before = g.notifies.iter().filter(|n| n.0 == id && n.1 < st).count() as u64;
        if invoked_before == 0 {
            g.err("phantom", format!("listener reported id {id} which no notify had been called with"));
        }
        g.reports.push((id, cnt, st));
        if counting {
            let total: u64 = g.reports.iter().filter(|r| r.0 == id).map(|r| r.1).sum();
            if total > invoked_before {
                g.err("phantom", format!("listener reported {total} occurrences of id {id}, only {invoked_before} notifications were issued"));
            }
        }
    }
}

fn run_impl<E: EventState + 'static>(plan: &Plan, cfg: &CfgSer, dec: Decisions, counting: bool, uniq: u64) -> (sim::Report, Shared) {
    let cap = plan.p("trigger_cap");
    NEXT_CAP.store(if cap <= 0 { u64::MAX } else { cap as u64 }, std::sync::atomic::Ordering::Relaxed);
    NEXT_EINTR.store(plan.p("eintr_permille") as u64, std::sync::atomic::Ordering::Relaxed);
    let fail_full = plan.p("fail_when_full") != 0;
    let name = FileName::new(format!("vsim_c05_{}_{}", std::process::id(), uniq).as_bytes()).unwrap();
    let listener = <Ev<E> as Event<E>>::ListenerBuilder::new(&name).event_id_max(EventId::new(3)).create().expect("listener");
    let nthreads = plan.threads.len();
    let mut notifiers = Vec::new();
    for _ in 1..nthreads {
        notifiers.push(<Ev<E> as Event<E>>::NotifierBuilder::new(&name).fail_when_buffer_is_full(fail_full).open().expect("notifier"));
    }
    let term_notifier = <Ev<E> as Event<E>>::NotifierBuilder::new(&name).fail_when_buffer_is_full(false).open().expect("notifier");
    let sh = Arc::new(Mutex::new(Shared::default()));
    let sh_out = sh.clone();
    let keep: Arc<Mutex<Vec<Box<dyn std::any::Any + Send>>>> = Arc::new(Mutex::new(Vec::new()));
    let keep2 = keep.clone();
    let plan2 = plan.clone();
    let kill = plan.p("kill");
    let report = sim_run(cfg.to_cfg(), dec, move || {
        let plan = plan2;
        let mut hs = Vec::new();
        for (t, n) in notifiers.into_iter().enumerate() {
            let ops = plan.threads[t + 1].clone();
            let sh = sh.clone();
            let keep = keep2.clone();
            hs.push(sim::spawn(&format!("N{t}"), move || {
                if kill == t as i64 + 1 {
                    sim::set_killable(true);
                }
                for o in ops.iter() {
                    let id = o.arg(0) as usize;
                    let idx = {
                        let st = sim::stamp();
                        let mut g = sh.lock().unwrap();
                        g.notifies.push((id, st, None, t));
                        g.notifies.len() - 1
                    };
                    let r = n.notify(EventId::new(id));
                    let st = sim::stamp();
                    let mut g = sh.lock().unwrap();
                    match r {
                        Ok(()) => g.notifies[idx].2 = Some(st),
                        Err(NotifierNotifyError::BufferIsFull) => g.probe("notify_saw_buffer_full"),
                        Err(e) => g.err("notify-error", format!("notify({id}) failed with {e:?}")),
                    }
                }
                sim::set_killable(false);
                keep.lock().unwrap().push(Box::new(n));
            }));
        }
        let lh = {
            let sh = sh.clone();
            let ops = plan.threads[0].clone();
            let keep = keep2.clone();
            sim::spawn("L", move || {
                let mut cb = report_cb(&sh, counting);
                for o in ops.iter() {
                    let r = match o.c.as_str() {
                        "try" => listener.try_wait(&mut cb),
                        "timed" => listener.timed_wait(&mut cb, Duration::from_nanos(o.arg(0) as u64)),
                        _ => {
                            // a blocking wait in the racing phase is only issued while something can still wake it
                            listener.timed_wait(&mut cb, Duration::from_nanos(1_000_000))
                        }
                    };
                    if let Err(e) = r {
                        if e != ListenerWaitError::InterruptSignal {
                            sh.lock().unwrap().err("wait-error", format!("wait failed with {e:?}"));
                        }
                    }
                }
                // final phase: block until the terminator has been seen
                let mut rounds = 0;
                loop {
                    let seen_term = sh.lock().unwrap().reports.iter().any(|r| r.0 == TERM_ID);
                    if seen_term {
                        break;
                    }
                    match listener.blocking_wait(&mut cb) {
                        Ok(_) => {}
                        Err(ListenerWaitError::InterruptSignal) => {}
                        Err(e) => {
                            sh.lock().unwrap().err("wait-error", format!("blocking wait failed with {e:?}"));
                            break;
                        }
                    }
                    rounds += 1;
                    if rounds > 60 {
                        sh.lock().unwrap().err("livelock", "listener returned 60 times from blocking_wait without seeing the terminator".into());
                        break;
                    }
                }
                // the drain that delivered the terminator may have passed the cells of ids that were
                // activated while it was running; all notifiers are finished now, so one more
                // non-blocking wait must deliver everything that is still owed
                if let Err(e) = listener.try_wait(&mut cb) {
                    if e != ListenerWaitError::InterruptSignal {
                        sh.lock().unwrap().err("wait-error", format!("final try_wait failed with {e:?}"));
                    }
                }
                drop(cb);
                sh.lock().unwrap().listener_done = true;
                keep.lock().unwrap().push(Box::new(listener));
            })
        };
        for h in hs {
            if h.join().is_err() {
                sh.lock().unwrap().probe("notifier_killed");
            }
        }
        // everybody else is done: send the terminator; its wake-up must not be lost either
        {
            let st = sim::stamp();
            let idx = {
                let mut g = sh.lock().unwrap();
                g.notifies.push((TERM_ID, st, None, 9));
                g.term_sent = true;
                g.notifies.len() - 1
            };
            match term_notifier.notify(EventId::new(TERM_ID)) {
                Ok(()) => {
                    let st = sim::stamp();
                    sh.lock().unwrap().notifies[idx].2 = Some(st);
                }
                Err(e) => sh.lock().unwrap().err("notify-error", format!("terminator notify failed with {e:?}")),
            }
        }
        let _ = lh.join();
        keep2.lock().unwrap().push(Box::new(term_notifier));
    });
    // drop notifiers before the listener (outside the simulation)
    let mut k = keep.lock().unwrap();
    while let Some(x) = k.pop() {
        drop(x);
    }
    drop(k);
    let g = std::mem::take(&mut *sh_out.lock().unwrap());
    (report, g)
}

pub struct EventHarness {
    pub counting: bool,
}

static UNIQ: std::sync::atomic::AtomicU64 = std::sync::atomic::AtomicU64::new(0);

impl Harness for EventHarness {
    fn name(&self) -> &'static str {
        if self.counting { "c05.event_counting_bitset" } else { "c05.event_bitset" }
    }
    fn property(&self) -> &'static str {
        "C05"
    }
    fn modes(&self) -> Vec<(&'static str, u32, bool)> {
        // the hand-shake is SeqCst throughout and C05 quantifies over interleavings: SC decides,
        // weak atomics (bit sets) are informational
        // notifier death mid-notify is not in C05's quantifier either (it belongs to C04): informational
        vec![("sc", 8, true), ("sc+kill", 2, false), ("weak", 1, false)]
    }
    fn quick_runs(&self) -> u64 {
        60_000
    }
    fn components(&self) -> Value {
        json!({"real": ["iceoryx2-cal event::common (Handle::notify, Waiter::drain_events)", "iceoryx2-bb-lock-free bit_set / counting_bit_set", "iceoryx2-cal dynamic_storage::process_local"],
               "stub": ["trigger back-end = model counting semaphore with capacity (mirrors trigger/semaphore.rs)", "thread scheduler", "clock"]})
    }
    fn generate(&self, r: &mut Rng, mode: &str) -> (Plan, CfgSer) {
        let nn = r.range(1, 3);
        let mut threads = Vec::new();
        let mut l = Vec::new();
        for _ in 0..r.range(0, 4) {
            match r.below(3) {
                0 => l.push(Op::new("try", &[])),
                1 => l.push(Op::new("timed", &[r.range(1, 5) * 1000])),
                _ => l.push(Op::new("block", &[])),
            }
        }
        threads.push(l);
        for _ in 0..nn {
            let mut ops = Vec::new();
            for _ in 0..r.range(1, 4) {
                ops.push(Op::new("notify", &[r.range(0, 2)]));
            }
            threads.push(ops);
        }
        let mut params = BTreeMap::new();
        let cap = *r.pick(&[0i64, 0, 1, 2, 3]);
        params.insert("trigger_cap".into(), cap);
        params.insert("fail_when_full".into(), if cap > 0 && r.chance(0.5) { 1 } else { 0 });
        params.insert("eintr_permille".into(), if r.chance(0.2) { 100 } else { 0 });
        let kill = if mode == "sc+kill" { r.range(1, nn) } else { 0 };
        params.insert("kill".into(), kill);
        let plan = Plan { harness: self.name().into(), mode: mode.into(), params, threads };
        let mut cfg = CfgSer::base();
        cfg.step_cap = 8000;
        cfg.draw_strategy(r, 150);
        if mode == "weak" {
            cfg.weak = true;
            cfg.stale_prob = 0.3;
        }
        if kill != 0 {
            cfg.max_kills = 1;
            cfg.kill_prob = 0.04;
        }
        (plan, cfg)
    }
    fn execute(&self, plan: &Plan, cfg: &CfgSer, dec: Decisions) -> RunResult {
        let uniq = UNIQ.fetch_add(1, std::sync::atomic::Ordering::Relaxed);
        for s in [&STAT_FULL, &STAT_EINTR, &STAT_BLOCKED, &STAT_TIMEOUT] {
            s.store(0, std::sync::atomic::Ordering::Relaxed);
        }
        let (report, g) = if self.counting { run_impl::<RelocatableCountingBitSet>(plan, cfg, dec, true, uniq) } else { run_impl::<RelocatableBitSet>(plan, cfg, dec, false, uniq) };
        let mut violation = None;
        let mut inconclusive = false;
        if let Some((c, m)) = g.errs.first() {
            violation = viol(c, m.clone());
        }
        if violation.is_none() {
            match &report.outcome {
                Outcome::Ok => {
                    let owed = g.owed();
                    if !owed.is_empty() {
                        violation = viol("lost-notification", format!("run finished but successful notifications (id, thread) {owed:?} were never reported"));
                    }
                }
                Outcome::StepCap => inconclusive = true,
                Outcome::Deadlock { .. } => {
                    let owed = g.owed();
                    if !g.listener_done && !owed.is_empty() {
                        violation = viol("lost-wakeup", format!("listener sleeps in blocking_wait for ever while successful notifications (id, notifier) {owed:?} are undelivered"));
                    } else if !g.listener_done && g.term_sent {
                        violation = viol("lost-wakeup", "listener sleeps for ever although the terminator notification was issued".into());
                    } else {
                        violation = viol("deadlock", "simulated threads blocked for ever".into());
                    }
                }
                Outcome::Panic { thread, msg } => violation = viol("panic", format!("thread {thread} panicked: {msg}")),
            }
        }
        let mut probes: Vec<(&'static str, u64)> = g.probes.iter().map(|(k, v)| (*k, *v)).collect();
        probes.push(("trigger_buffer_full", STAT_FULL.load(std::sync::atomic::Ordering::Relaxed)));
        probes.push(("wait_interrupted_eintr", STAT_EINTR.load(std::sync::atomic::Ordering::Relaxed)));
        probes.push(("listener_blocked_in_trigger", STAT_BLOCKED.load(std::sync::atomic::Ordering::Relaxed)));
        probes.push(("timed_wait_timed_out", STAT_TIMEOUT.load(std::sync::atomic::Ordering::Relaxed)));
        probes.push(("reports", g.reports.len() as u64));
        RunResult { report, violation, beyond: None, probes, inconclusive }
    }
}
