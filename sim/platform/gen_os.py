#!/usr/bin/env python3
# Generates os.rs: /repo's linux PAL re-mounted by absolute path, with wrappers (shadowing the glob
# re-export) for calls that block, read the clock, or change kernel state (DESIGN.md §3.2).
mods = "constants dirent errno fcntl mman pthread pwd resource sched select semaphore signal socket stat stdio stdlib string support time timer types unistd".split()
REPO = "/repo/iceoryx2-pal/posix/src/linux"
wrapped = {}

wrapped["pthread"] = r'''
    use iceoryx2_pal_concurrency_sync::sim;
    use crate::posix::types::*;
    const EBUSY_: int = libc::EBUSY;

    pub unsafe fn pthread_mutex_lock(mtx: *mut pthread_mutex_t) -> int {
        if remote::active() {
            loop {
                let r = unsafe { real::pthread_mutex_trylock(mtx) };
                if r != EBUSY_ { return r; }
                let _ = remote::yield_point("blocked-on-mutex", 0, "");
                remote::sleep_ns(1_000_000);
            }
        }
        if !sim::active() { return unsafe { real::pthread_mutex_lock(mtx) }; }
        loop {
            sim::yield_point(0x701);
            let r = unsafe { real::pthread_mutex_trylock(mtx) };
            if r != EBUSY_ { sim::sync_acquire(mtx as usize); return r; }
            sim::block_on(mtx as usize, None);
        }
    }
    pub unsafe fn pthread_mutex_timedlock(mtx: *mut pthread_mutex_t, abs_timeout: *const timespec) -> int {
        if !sim::active() { return unsafe { real::pthread_mutex_timedlock(mtx, abs_timeout) }; }
        unsafe { pthread_mutex_lock(mtx) }
    }
    pub unsafe fn pthread_mutex_trylock(mtx: *mut pthread_mutex_t) -> int {
        if !sim::active() { return unsafe { real::pthread_mutex_trylock(mtx) }; }
        sim::yield_point(0x702);
        let r = unsafe { real::pthread_mutex_trylock(mtx) };
        if r == 0 { sim::sync_acquire(mtx as usize); }
        r
    }
    pub unsafe fn pthread_mutex_unlock(mtx: *mut pthread_mutex_t) -> int {
        if !sim::active() { return unsafe { real::pthread_mutex_unlock(mtx) }; }
        sim::yield_point(0x703);
        sim::sync_release(mtx as usize);
        let r = unsafe { real::pthread_mutex_unlock(mtx) };
        sim::wake(mtx as usize, true);
        r
    }
    pub unsafe fn pthread_rwlock_rdlock(lock: *mut pthread_rwlock_t) -> int {
        if !sim::active() { return unsafe { real::pthread_rwlock_rdlock(lock) }; }
        loop {
            sim::yield_point(0x711);
            let r = unsafe { real::pthread_rwlock_tryrdlock(lock) };
            if r != EBUSY_ { sim::sync_acquire(lock as usize); return r; }
            sim::block_on(lock as usize, None);
        }
    }
    pub unsafe fn pthread_rwlock_wrlock(lock: *mut pthread_rwlock_t) -> int {
        if !sim::active() { return unsafe { real::pthread_rwlock_wrlock(lock) }; }
        loop {
            sim::yield_point(0x712);
            let r = unsafe { real::pthread_rwlock_trywrlock(lock) };
            if r != EBUSY_ { sim::sync_acquire(lock as usize); return r; }
            sim::block_on(lock as usize, None);
        }
    }
    pub unsafe fn pthread_rwlock_tryrdlock(lock: *mut pthread_rwlock_t) -> int {
        if !sim::active() { return unsafe { real::pthread_rwlock_tryrdlock(lock) }; }
        sim::yield_point(0x713);
        let r = unsafe { real::pthread_rwlock_tryrdlock(lock) };
        if r == 0 { sim::sync_acquire(lock as usize); }
        r
    }
    pub unsafe fn pthread_rwlock_trywrlock(lock: *mut pthread_rwlock_t) -> int {
        if !sim::active() { return unsafe { real::pthread_rwlock_trywrlock(lock) }; }
        sim::yield_point(0x714);
        let r = unsafe { real::pthread_rwlock_trywrlock(lock) };
        if r == 0 { sim::sync_acquire(lock as usize); }
        r
    }
    pub unsafe fn pthread_rwlock_unlock(lock: *mut pthread_rwlock_t) -> int {
        if !sim::active() { return unsafe { real::pthread_rwlock_unlock(lock) }; }
        sim::yield_point(0x715);
        sim::sync_release(lock as usize);
        let r = unsafe { real::pthread_rwlock_unlock(lock) };
        sim::wake(lock as usize, true);
        r
    }
'''

wrapped["semaphore"] = r'''
    use iceoryx2_pal_concurrency_sync::sim;
    use crate::posix::types::*;

    pub unsafe fn sem_post(sem: *mut sem_t) -> int {
        if !sim::active() { return unsafe { real::sem_post(sem) }; }
        sim::yield_point(0x721);
        sim::sync_release(sem as usize);
        let r = unsafe { real::sem_post(sem) };
        sim::wake(sem as usize, true);
        r
    }
    pub unsafe fn sem_wait(sem: *mut sem_t) -> int {
        if !sim::active() { return unsafe { real::sem_wait(sem) }; }
        loop {
            sim::yield_point(0x722);
            let r = unsafe { real::sem_trywait(sem) };
            if r == 0 { sim::sync_acquire(sem as usize); return 0; }
            if crate::posix::Errno::get() != crate::posix::Errno::EAGAIN { return r; }
            sim::block_on(sem as usize, None);
        }
    }
    pub unsafe fn sem_trywait(sem: *mut sem_t) -> int {
        if !sim::active() { return unsafe { real::sem_trywait(sem) }; }
        sim::yield_point(0x723);
        let r = unsafe { real::sem_trywait(sem) };
        if r == 0 { sim::sync_acquire(sem as usize); }
        r
    }
    pub unsafe fn sem_timedwait(sem: *mut sem_t, abs_timeout: *const timespec) -> int {
        if !sim::active() { return unsafe { real::sem_timedwait(sem, abs_timeout) }; }
        let t = unsafe { &*abs_timeout };
        let deadline = (t.tv_sec as u64).wrapping_mul(1_000_000_000).wrapping_add(t.tv_nsec as u64).wrapping_sub(super::time::REALTIME_EPOCH_NS);
        loop {
            sim::yield_point(0x724);
            let r = unsafe { real::sem_trywait(sem) };
            if r == 0 { sim::sync_acquire(sem as usize); return 0; }
            if crate::posix::Errno::get() != crate::posix::Errno::EAGAIN { return r; }
            if sim::now_ns() >= deadline || (!sim::block_on(sem as usize, Some(deadline)) && sim::now_ns() >= deadline) {
                crate::posix::Errno::set(crate::posix::Errno::ETIMEDOUT);
                return -1;
            }
        }
    }
'''

wrapped["time"] = r'''
    use iceoryx2_pal_concurrency_sync::sim;
    use crate::posix::types::*;
    /// CLOCK_REALTIME = virtual monotonic time + this epoch
    pub const REALTIME_EPOCH_NS: u64 = 1_700_000_000_000_000_000;

    pub unsafe fn clock_gettime(clock_id: clockid_t, tp: *mut timespec) -> int {
        if !sim::active() && !remote::active() { return unsafe { real::clock_gettime(clock_id, tp) }; }
        let mut now = if remote::active() { remote::now_ns() } else { sim::now_ns() };
        if clock_id == libc::CLOCK_REALTIME { now = now.wrapping_add(REALTIME_EPOCH_NS); }
        unsafe {
            (*tp).tv_sec = (now / 1_000_000_000) as _;
            (*tp).tv_nsec = (now % 1_000_000_000) as _;
        }
        0
    }
    pub unsafe fn clock_nanosleep(clock_id: clockid_t, flags: int, rqtp: *const timespec, rmtp: *mut timespec) -> int {
        if !sim::active() && !remote::active() { return unsafe { real::clock_nanosleep(clock_id, flags, rqtp, rmtp) }; }
        let t = unsafe { &*rqtp };
        let mut ns = (t.tv_sec as u64).wrapping_mul(1_000_000_000).wrapping_add(t.tv_nsec as u64);
        if flags & libc::TIMER_ABSTIME != 0 {
            if clock_id == libc::CLOCK_REALTIME { ns = ns.wrapping_sub(REALTIME_EPOCH_NS); }
            let now = if remote::active() { remote::now_ns() } else { sim::now_ns() };
            ns = ns.saturating_sub(now);
        }
        if remote::active() { remote::sleep_ns(ns.max(1)); return 0; }
        sim::yield_point(0x731);
        if ns > 0 { sim::sleep_ns(ns); }
        0
    }
'''

wrapped["stdlib"] = r'''
    use iceoryx2_pal_concurrency_sync::sim;
    use crate::posix::types::*;
    pub unsafe fn free(ptr: *mut void) {
        if !sim::quarantine::push(ptr as usize, 0, 0) {
            unsafe { real::free(ptr) }
        }
    }
'''

wrapped["unistd"] = r'''
    use iceoryx2_pal_concurrency_sync::sim;
    use crate::posix::types::*;
    // ids derived from the pid (node ids, owner ids in shared memory) must be a function of the seed
    pub unsafe fn getpid() -> pid_t {
        if remote::active() { return remote::virtual_pid() as pid_t; }
        if sim::active() { return sim::virtual_pid() as pid_t; }
        unsafe { real::getpid() }
    }
    pub unsafe fn close(fd: int) -> int {
        ry_!("close", fd, "", -1);
        unsafe { real::close(fd) }
    }
    pub unsafe fn unlink(pathname: *const c_char) -> int {
        ry_!("unlink", 0, &cs_(pathname), -1);
        unsafe { real::unlink(pathname) }
    }
    pub unsafe fn rmdir(pathname: *const c_char) -> int {
        ry_!("rmdir", 0, &cs_(pathname), -1);
        unsafe { real::rmdir(pathname) }
    }
    pub unsafe fn ftruncate(fd: int, length: off_t) -> int {
        ry_!("ftruncate", fd, "", -1);
        unsafe { real::ftruncate(fd, length) }
    }
    pub unsafe fn write(fd: int, buf: *const void, count: size_t) -> ssize_t {
        ry_!("write", fd, "", -1);
        unsafe { real::write(fd, buf, count) }
    }
    pub unsafe fn read(fd: int, buf: *mut void, count: size_t) -> ssize_t {
        ry_!("read", fd, "", -1);
        unsafe { real::read(fd, buf, count) }
    }
    pub unsafe fn gethostpid() -> pid_t {
        if remote::active() { return remote::virtual_pid() as pid_t; }
        if sim::active() { return sim::virtual_pid() as pid_t; }

        unsafe { real::gethostpid() }
    }
'''

wrapped["mman"] = r'''
    use iceoryx2_pal_concurrency_sync::sim;
    use crate::posix::types::*;
    // Address stability (see sim::quarantine): a mapping that is removed during a run must not hand its
    // address range to the next mapping, otherwise two different shared objects would share an identity
    // depending on the kernel's placement. The mapping is simply kept until the process ends.
    pub unsafe fn munmap(addr: *mut void, len: size_t) -> int {
        if sim::quarantine::is_on() {
            // keep the range reserved (never reused) but make it inaccessible: an access through a dangling
            // pointer into an unmapped segment is then a crash of the forked run instead of a silent success
            unsafe { libc::mprotect(addr as *mut libc::c_void, len, libc::PROT_NONE) };
            return 0;
        }
        ry_!("munmap", 0, "", -1);
        if remote::active() { remote::unregister_shared(addr as usize); }
        unsafe { real::munmap(addr, len) }
    }
    pub unsafe fn shm_open(name: *const c_char, oflag: int, mode: mode_t) -> int {
        ry_!(if oflag & libc::O_CREAT != 0 { "shm_open-create" } else { "shm_open" }, oflag, &cs_(name), -1);
        unsafe { real::shm_open(name, oflag, mode) }
    }
    pub unsafe fn shm_unlink(name: *const c_char) -> int {
        ry_!("shm_unlink", 0, &cs_(name), -1);
        unsafe { real::shm_unlink(name) }
    }
    pub unsafe fn mmap(addr: *mut void, len: size_t, prot: int, flags: int, fd: int, off: off_t) -> *mut void {
        ry_!("mmap", fd, "", libc::MAP_FAILED);
        let p = unsafe { real::mmap(addr, len, prot, flags, fd, off) };
        if remote::active() && p != libc::MAP_FAILED && flags & libc::MAP_SHARED != 0 {
            remote::register_shared(p as usize, len);
        }
        p
    }
    pub unsafe fn shm_list() -> alloc::vec::Vec<[i8; 256]> {
        let mut v = unsafe { real::shm_list() };
        if remote::active() || sim::active() { v.sort(); }
        v
    }
'''

wrapped["fcntl"] = r'''
    use crate::posix::types::*;
    pub unsafe fn open_with_mode(pathname: *const c_char, flags: int, mode: mode_t) -> int {
        ry_!(if flags & libc::O_CREAT != 0 { "open-create" } else { "open" }, flags, &cs_(pathname), -1);
        unsafe { real::open_with_mode(pathname, flags, mode) }
    }
    pub unsafe fn open(pathname: *const c_char, flags: int) -> int {
        ry_!(if flags & libc::O_CREAT != 0 { "open-create" } else { "open" }, flags, &cs_(pathname), -1);
        unsafe { real::open(pathname, flags) }
    }
    pub unsafe fn fchmod(fd: int, mode: mode_t) -> int {
        ry_!("fchmod", fd, "", -1);
        unsafe { real::fchmod(fd, mode) }
    }
    pub unsafe fn fcntl(fd: int, cmd: int, arg: *mut flock) -> int {
        ry_!("fcntl-lock", cmd, "", -1);
        unsafe { real::fcntl(fd, cmd, arg) }
    }
'''

wrapped["stat"] = r'''
    use crate::posix::types::*;
    pub unsafe fn chmod(path: *const c_char, mode: mode_t) -> int {
        ry_!("chmod", 0, &cs_(path), -1);
        unsafe { real::chmod(path, mode) }
    }
'''

wrapped["stdio"] = r'''
    use crate::posix::types::*;
    pub unsafe fn remove(pathname: *const c_char) -> int {
        ry_!("remove", 0, &cs_(pathname), -1);
        unsafe { real::remove(pathname) }
    }
'''

wrapped["dirent"] = r'''
    use crate::posix::types::*;
    pub unsafe fn mkdir(pathname: *const c_char, mode: mode_t) -> int {
        ry_!("mkdir", 0, &cs_(pathname), -1);
        unsafe { real::mkdir(pathname, mode) }
    }
'''

wrapped["sched"] = r'''
    use iceoryx2_pal_concurrency_sync::sim;
    use crate::posix::types::*;
    pub unsafe fn sched_yield() -> int {
        if remote::active() { remote::sleep_ns(1000); return 0; }
        if !sim::active() { return unsafe { real::sched_yield() }; }
        sim::spin_hint();
        0
    }
'''

HELPER = '\n    #[allow(unused_imports)]\n    use iceoryx2_pal_concurrency_sync::sim::remote;\n    #[allow(dead_code)]\n    fn cs_(p: *const c_char) -> alloc::string::String {\n        if p.is_null() { return alloc::string::String::new(); }\n        unsafe { core::ffi::CStr::from_ptr(p) }.to_string_lossy().into_owned()\n    }\n    #[allow(dead_code)]\n    fn set_errno_(e: i32) { unsafe { *libc::__errno_location() = e; } }\n    /// remote mode: report the call, let the controller decide (go / fail / kill)\n    macro_rules! ry_ {\n        ($kind:expr, $arg:expr, $detail:expr, $failret:expr) => {\n            if iceoryx2_pal_concurrency_sync::sim::pathlog::is_on() {\n                iceoryx2_pal_concurrency_sync::sim::pathlog::push($kind, $detail);\n            }\n            if iceoryx2_pal_concurrency_sync::sim::faults::is_armed() {\n                if let Some(e) = iceoryx2_pal_concurrency_sync::sim::faults::should_fail($kind) {\n                    set_errno_(e);\n                    return $failret;\n                }\n            }\n            if remote::active() {\n                if let remote::Answer::Fail(e) = remote::yield_point($kind, $arg as i64, $detail) {\n                    set_errno_(e);\n                    return $failret;\n                }\n            }\n        };\n    }\n'
out = ["// GENERATED by gen_os.py — custom POSIX platform for the simulator (DESIGN.md §3.2).",
       "pub mod posix {"]
for m in mods:
    if m in wrapped:
        out.append(f"    pub mod {m} {{\n    #[path = \"{REPO}/{m}.rs\"]\n    mod real;\n    pub use real::*;\n" + HELPER + f"{wrapped[m]}    }}")
    else:
        out.append(f'    #[path = "{REPO}/{m}.rs"]\n    pub mod {m};')
for m in mods:
    out.append(f"    pub use crate::os::posix::{m}::*;")
out.append("}")
open("/verif/sim/platform/os.rs", "w").write("\n".join(out) + "\n")
